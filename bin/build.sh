#!/bin/bash
# usage: build.sh <scratchdir> [extra instr flags]  -> builds <scratchdir>/verifh from /repo's current tree
set -e
export GOFLAGS=-mod=mod GOPROXY=off GOSUMDB=off GOTOOLCHAIN=local
S="$1"; shift
REPO="${VERIF_REPO:-/repo}"
mkdir -p "$S/instr"
V=/verif
if [ ! -x "$V/bin/instr" ] || [ "$V/tools/instr/main.go" -nt "$V/bin/instr" ]; then
  (cd $V/tools/instr && go build -o $V/bin/instr .)
fi
$V/bin/instr -repo "$REPO" -out "$S/instr" -rt $V/rt \
  -pkg workflow -pkg internal/step/plugin -pkg internal/step/foreach -pkg internal/infer -pkg . -pkg loadfile -pkg internal/yaml -pkg internal/step \
  -swap go.flow.arcalot.io/pluginsdk/atp=go.flow.arcalot.io/engine/internal/verif/fakeatp ${VERIF_PROBES:+-probes} "$@"
cp "$REPO/go.mod" "$S/go.mod"; cp "$REPO/go.sum" "$S/go.sum"
(cd "$REPO" && go build -modfile="$S/go.mod" -overlay "$S/instr/overlay.json" -o "$S/verifh" ./cmd/verifh)
