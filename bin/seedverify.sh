#!/bin/bash
# seedverify.sh <id> <demo-file> <pkgdir> <test-regex>   (run in the agent's scratch worktree /tmp/seed/<id>)
# confirms: suite passes with the change; demonstration fails with it and passes without it
export GOFLAGS=-mod=mod GOPROXY=off GOSUMDB=off GOTOOLCHAIN=local
ID=$1; DEMO=$2; PKG=$3; RE=$4
W=/tmp/seed/$ID; O=/tmp/seed/$ID.out
cd $W || exit 2
git diff > $O/current.diff
echo "== suite with change"
go build ./... && go test -vet=off -count=1 ./config/... ./internal/... ./loadfile/... ./workflow/... 2>&1 | grep -v "^ok\|no test files" ; echo "suite-exit=$?"
cp $O/$DEMO $W/$PKG/zz_demo_test.go
echo "== demo with change (expect FAIL)"
timeout 300 go test -vet=off -count=1 -run "$RE" ./$PKG/ 2>&1 | tail -5
git diff > /tmp/seed/$ID.restore.diff; git checkout -q -- .
cp $O/$DEMO $W/$PKG/zz_demo_test.go
echo "== demo without change (expect ok)"
timeout 300 go test -vet=off -count=1 -run "$RE" ./$PKG/ 2>&1 | tail -3
rm -f $W/$PKG/zz_demo_test.go
git apply /tmp/seed/$ID.restore.diff
git status --short | head -5
