#!/bin/bash
# Build the rewriter and warm the Go build cache (offline).
set -e
export GOFLAGS=-mod=mod GOPROXY=off GOSUMDB=off GOTOOLCHAIN=local
V=/verif
(cd $V/tools/instr && go build -o $V/bin/instr .)
S="${VERIF_SCRATCH:-/var/tmp}/verif.setup.$$"
trap 'rm -rf "$S"' EXIT
mkdir -p "$S"
$V/bin/build.sh "$S"
echo setup ok
