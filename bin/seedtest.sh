#!/bin/bash
# seedtest.sh <patch.diff> <Cxx> [<Cxx>...]   apply a seeded change to /repo, run the quick checks, undo it
P=$1; shift
cd /repo || exit 2
if ! git diff --quiet; then echo "/repo is dirty"; exit 2; fi
git apply "$P" || { echo "patch does not apply"; exit 2; }
for c in "$@"; do
  out=$(cd /verif && VERIF_WORKERS=${VERIF_WORKERS:-16} bin/check $c ${TIER:-quick} 2>&1)
  rc=$?
  echo "== $c exit=$rc $(echo "$out" | grep -c '^VIOLATION') violation(s)"
  echo "$out" | grep -A2 "key:" | head -${SHOW:-9} | cut -c1-300
  echo "$out" | tail -1 | cut -c1-300
done
git checkout -- .
git status --short | head -3
