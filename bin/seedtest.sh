#!/bin/bash
# seedtest.sh <patch.diff> <Cxx> [<Cxx>...]   apply a seeded change to a scratch worktree of /repo's HEAD,
# run the checks against it (VERIF_REPO), remove the worktree. /repo itself is not touched.
P=$1; shift
W=/tmp/seedwt.$$
git -C /repo worktree add -q --detach $W HEAD || exit 2
trap 'git -C /repo worktree remove --force $W' EXIT
( cd $W && git apply "$P" ) || { echo "patch does not apply"; exit 2; }
for c in "$@"; do
  out=$(cd /verif && VERIF_REPO=$W VERIF_EVIDENCE_DIR=/tmp/seedwt.$$.evidence bin/check $c ${TIER:-quick} 2>&1)
  rc=$?
  echo "== $c exit=$rc $(echo "$out" | grep -c '^VIOLATION') violation(s)"
  echo "$out" | grep -A2 "key:" | head -${SHOW:-9} | cut -c1-300
  echo "$out" | tail -1 | cut -c1-300
done
rm -rf /tmp/seedwt.$$.evidence
