// Package env holds the scripted environment of the engine under test: a scripted
// deployer, a scripted plugin (a real pluginsdk CallableSchema whose handlers follow a
// script) and the ledger every environment action is recorded in.
package env

import (
	"fmt"
	"sort"
	"strings"

	"go.flow.arcalot.io/engine/internal/verif/vrt"
)

type DeployKind int

const (
	DeployOK DeployKind = iota
	DeployFail
	DeployHang // blocks until the deployment context is done
)

type RunKind int

const (
	RunSuccess        RunKind = iota
	RunErrorOut               // declared "error" output
	RunCrash                  // Execute returns an error result
	RunHangCancel             // runs until the cancel signal, then returns cancelled_early
	RunHangIgnore             // runs until the connection is closed
	RunSchemaMismatch         // the deployed plugin does not know the step
	RunBadOutputID            // a plugin not built with the SDK answers with an output id its schema does not declare
	RunBadOutputData          // ... or with data that does not fit the declared output
)

var RunKindNames = map[RunKind]string{RunSuccess: "success", RunErrorOut: "error-output", RunCrash: "crash",
	RunHangCancel: "hang-until-cancel", RunHangIgnore: "hang-ignoring-cancel", RunSchemaMismatch: "schema-mismatch",
	RunBadOutputID: "undeclared-output-id", RunBadOutputData: "ill-typed-output-data"}
var DeployKindNames = map[DeployKind]string{DeployOK: "ok", DeployFail: "fail", DeployHang: "hang"}

// StepScript is the scripted behaviour of one deployed plugin, keyed by its `src`.
type StepScript struct {
	Deploy          DeployKind
	DeployMS        int64 // virtual duration of the deployment
	DeployIgnoreCtx bool  // the deployment does not notice a cancelled context (like the test deployer)
	Run             RunKind
	RunMS           int64 // virtual duration of the execution (0: completes as soon as scheduled)
	CancelMS        int64 // time between cancel signal and cancelled_early
	ByValue         map[int64]RunKind
	ByValueMS       map[int64]int64 // per-input-value execution time (virtual ms)
	ReadSchemaFails bool
	ClientCloseFail bool
	ConnCloseFails  bool
	ProbeDeployFail bool // fail only deployments made while preparing (schema probe)
}

type Script struct {
	Steps   map[string]*StepScript
	Default StepScript
}

func (s *Script) For(key string) *StepScript {
	if s != nil {
		if st, ok := s.Steps[key]; ok {
			return st
		}
		return &s.Default
	}
	return &StepScript{}
}

func (s *Script) String() string {
	if s == nil {
		return "{}"
	}
	var keys []string
	for k := range s.Steps {
		keys = append(keys, k)
	}
	sort.Strings(keys)
	var parts []string
	for _, k := range keys {
		st := s.Steps[k]
		p := fmt.Sprintf("%s:deploy=%s", k, DeployKindNames[st.Deploy])
		if st.DeployMS > 0 {
			p += fmt.Sprintf("/%dms", st.DeployMS)
		}
		p += ",run=" + RunKindNames[st.Run]
		if st.RunMS > 0 {
			p += fmt.Sprintf("/%dms", st.RunMS)
		}
		if len(st.ByValue) > 0 {
			var vs []string
			for v, k := range st.ByValue {
				vs = append(vs, fmt.Sprintf("%d=%s", v, RunKindNames[k]))
			}
			sort.Strings(vs)
			p += ",byvalue{" + strings.Join(vs, ",") + "}"
		}
		parts = append(parts, p)
	}
	return "{" + strings.Join(parts, "; ") + "}"
}

// Event is one ledger entry.
type Event struct {
	Seq    int
	T      int64
	Thread int
	Phase  string
	Kind   string // deploy-start deploy-ok deploy-fail conn-close exec-start exec-end signal read-schema client-close
	Step   string // script key (src)
	RunID  string
	Conn   int
	Data   any
	Data2  any
}

func (e Event) String() string {
	s := fmt.Sprintf("#%d t=%d T%d [%s] %s %s", e.Seq, e.T, e.Thread, e.Phase, e.Kind, e.Step)
	if e.RunID != "" {
		s += " run=" + e.RunID
	}
	if e.Conn != 0 {
		s += fmt.Sprintf(" conn=%d", e.Conn)
	}
	if e.Data != nil {
		s += fmt.Sprintf(" %v", e.Data)
	}
	if e.Data2 != nil {
		s += fmt.Sprintf(" -> %v", e.Data2)
	}
	return s
}

// World is the environment of one execution.
type World struct {
	Script  *Script
	Ledger  []Event
	Phase   string
	conns   int
	Running map[string]int // group -> currently executing plugins
	HighWater map[string]int
}

// W is the current world; the harness installs a fresh one per execution.
var W *World

func NewWorld(s *Script) *World {
	return &World{Script: s, Phase: "run", Running: map[string]int{}, HighWater: map[string]int{}}
}

func Log(kind, step, runID string, conn int, data, data2 any) {
	w := W
	if w == nil {
		return
	}
	w.Ledger = append(w.Ledger, Event{Seq: len(w.Ledger), T: vrt.NowMS(), Thread: vrt.CurrentThread(), Phase: w.Phase,
		Kind: kind, Step: step, RunID: runID, Conn: conn, Data: data, Data2: data2})
}

func (w *World) LedgerString() string {
	var sb strings.Builder
	for _, e := range w.Ledger {
		sb.WriteString("  " + e.String() + "\n")
	}
	return sb.String()
}

// Find returns the ledger entries of a kind (and step, if not empty).
func (w *World) Find(kind, step string) []Event {
	var out []Event
	for _, e := range w.Ledger {
		if e.Kind == kind && (step == "" || e.Step == step) {
			out = append(out, e)
		}
	}
	return out
}
