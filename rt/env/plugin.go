package env

import (
	"context"
	"fmt"

	"go.flow.arcalot.io/engine/internal/verif/vrt"
	"go.flow.arcalot.io/pluginsdk/plugin"
	"go.flow.arcalot.io/pluginsdk/schema"
)

// Inp is the input of the scripted plugin steps.
type Inp struct {
	V int64    `json:"v"`
	S *string  `json:"s"`
	L *[]int64 `json:"l"`
	O *Sub     `json:"o"`
}

type Sub struct {
	A int64   `json:"a"`
	B *string `json:"b"`
}

type Out struct {
	V int64   `json:"v"`
	S string  `json:"s"`
	L []int64 `json:"l"`
}

type ErrOut struct {
	Error string `json:"error"`
	V     int64  `json:"v"`
}

type Empty struct{}

func prop(t schema.Type, required bool) *schema.PropertySchema {
	return schema.NewPropertySchema(t, nil, required, nil, nil, nil, nil, nil)
}

func inputSchema() *schema.ScopeSchema {
	return schema.NewScopeSchema(
		schema.NewStructMappedObjectSchema[Inp]("scripted-input", map[string]*schema.PropertySchema{
			"v": prop(schema.NewIntSchema(nil, nil, nil), true),
			"s": prop(schema.NewStringSchema(nil, nil, nil), false),
			"l": prop(schema.NewListSchema(schema.NewIntSchema(nil, nil, nil), nil, nil), false),
			"o": prop(schema.NewRefSchema("scripted-sub", nil), false),
		}),
		schema.NewStructMappedObjectSchema[Sub]("scripted-sub", map[string]*schema.PropertySchema{
			"a": prop(schema.NewIntSchema(nil, nil, nil), true),
			"b": prop(schema.NewStringSchema(nil, nil, nil), false),
		}),
	)
}

func outputs() map[string]*schema.StepOutputSchema {
	return map[string]*schema.StepOutputSchema{
		"success": schema.NewStepOutputSchema(schema.NewScopeSchema(
			schema.NewStructMappedObjectSchema[Out]("scripted-output", map[string]*schema.PropertySchema{
				"v": prop(schema.NewIntSchema(nil, nil, nil), true),
				"s": prop(schema.NewStringSchema(nil, nil, nil), true),
				"l": prop(schema.NewListSchema(schema.NewIntSchema(nil, nil, nil), nil, nil), true),
			})), nil, false),
		"error": schema.NewStepOutputSchema(schema.NewScopeSchema(
			schema.NewStructMappedObjectSchema[ErrOut]("scripted-error", map[string]*schema.PropertySchema{
				"error": prop(schema.NewStringSchema(nil, nil, nil), true),
				"v":     prop(schema.NewIntSchema(nil, nil, nil), true),
			})), nil, true),
		"cancelled_early": schema.NewStepOutputSchema(schema.NewScopeSchema(
			schema.NewStructMappedObjectSchema[Empty]("scripted-cancelled", map[string]*schema.PropertySchema{})), nil, false),
	}
}

// SuccessOutput is the function the scripted plugin computes; the reference uses it too.
func SuccessOutput(key string, in Inp) Out {
	s := key
	if in.S != nil {
		s += ":" + *in.S
	}
	l := []int64{}
	if in.L != nil {
		for _, x := range *in.L {
			l = append(l, x+1)
		}
	}
	v := in.V + 1
	if in.O != nil {
		v += 100 * in.O.A
	}
	return Out{V: v, S: s, L: l}
}

type runData struct {
	cancel chan struct{}
}

// crashSentinel is returned through the step handler when the script says "crash".
type crash struct{ msg string }

// execState is what a running Execute shares with its handler.
type execState struct {
	conn  *Conn
	runID string
	crash *crash
}

// newPlugin builds the callable schema of one deployment.
func newPlugin(conn *Conn, st *execState) *schema.CallableSchema {
	handler := func(ctx context.Context, d *runData, in Inp) (string, any) {
		return runScript(conn, st, d, in)
	}
	onCancel := func(ctx context.Context, d *runData, _ plugin.CancelInput) {
		switch vrt.Select("env/plugin.cancel", true, vrt.S(d.cancel)) {
		case 0:
			d.cancel <- struct{}{}
		}
	}
	initData := func() *runData { return &runData{cancel: make(chan struct{}, 4)} }
	return schema.NewCallableSchema(
		schema.NewCallableStepWithSignals[*runData, Inp](
			"run", inputSchema(), outputs(),
			map[string]schema.CallableSignal{
				plugin.CancellationSignalSchema.ID(): schema.NewCallableSignalFromSchema(plugin.CancellationSignalSchema, onCancel),
			},
			map[string]*schema.SignalSchema{}, nil, initData, handler,
		),
		schema.NewCallableStepWithSignals[*runData, Inp](
			"nosig", inputSchema(), outputs(),
			map[string]schema.CallableSignal{}, map[string]*schema.SignalSchema{}, nil, initData, handler,
		),
	)
}

func runScript(conn *Conn, st *execState, d *runData, in Inp) (string, any) {
	sc := conn.Script
	kind := sc.Run
	if k, ok := sc.ByValue[in.V]; ok {
		kind = k
	}
	// wait: duration, cancellation, connection closure
	wait := func(ms int64, honourCancel bool) string {
		var tm <-chan struct{}
		if ms >= 0 {
			t := make(chan struct{}, 1)
			tm = t
			if ms == 0 {
				t <- struct{}{}
			} else {
				vrt.AfterFuncSend("env/plugin.timer", ms, t)
			}
		}
		for {
			switch vrt.Select("env/plugin.wait", false, vrt.R(tm), vrt.R(d.cancel), vrt.R(conn.closedCh)) {
			case 0:
				<-tm
				return "done"
			case 1:
				<-d.cancel
				if honourCancel {
					return "cancelled"
				}
			case 2:
				<-conn.closedCh
				return "closed"
			}
		}
	}
	runMS := sc.RunMS
	if ms, ok := sc.ByValueMS[in.V]; ok {
		runMS = ms
	}
	switch kind {
	case RunSuccess, RunErrorOut, RunCrash:
		if runMS > 0 {
			switch wait(runMS, true) {
			case "cancelled":
				if sc.CancelMS > 0 {
					wait(sc.CancelMS, false)
				}
				return "cancelled_early", Empty{}
			case "closed":
				st.crash = &crash{"connection closed while the step was running"}
				return "cancelled_early", Empty{}
			}
		}
		switch kind {
		case RunSuccess:
			return "success", SuccessOutput(conn.Key, in)
		case RunErrorOut:
			return "error", ErrOut{Error: "scripted error of " + conn.Key, V: in.V}
		default:
			st.crash = &crash{fmt.Sprintf("scripted crash of %s", conn.Key)}
			return "cancelled_early", Empty{}
		}
	case RunHangCancel:
		switch wait(-1, true) {
		case "cancelled":
			if sc.CancelMS > 0 {
				if wait(sc.CancelMS, false) == "closed" {
					st.crash = &crash{"connection closed while the step was running"}
				}
			}
			return "cancelled_early", Empty{}
		default:
			st.crash = &crash{"connection closed while the step was running"}
			return "cancelled_early", Empty{}
		}
	case RunHangIgnore:
		wait(-1, false)
		st.crash = &crash{"connection closed while the step was running"}
		return "cancelled_early", Empty{}
	}
	st.crash = &crash{"unknown script"}
	return "cancelled_early", Empty{}
}

// NewStandalonePlugin builds a scripted connection and its plugin schema outside a world
// (used by the conformance replay against the real ATP client/server).
func NewStandalonePlugin(key string, sc *StepScript) (*Conn, *schema.CallableSchema) {
	conn := &Conn{ID_: 1, Key: key, Script: sc, closedCh: make(chan struct{}), Phase: "run"}
	st := &execState{conn: conn}
	return conn, newPlugin(conn, st)
}
