package env

import (
	"context"
	"fmt"
	"sync"

	"github.com/fxamacker/cbor/v2"
	"go.flow.arcalot.io/engine/internal/verif/vrt"
	"go.flow.arcalot.io/pluginsdk/atp"
	"go.flow.arcalot.io/pluginsdk/plugin"
	"go.flow.arcalot.io/pluginsdk/schema"
)

var decMode = func() cbor.DecMode {
	m, err := cbor.DecOptions{ExtraReturnErrors: cbor.ExtraDecErrorUnknownField}.DecMode()
	if err != nil {
		panic(err)
	}
	return m
}()

// Wire passes a value through the CBOR encoding the ATP wire applies.
func Wire(v any) (any, error) {
	b, err := cbor.Marshal(v)
	if err != nil {
		return nil, err
	}
	var out any
	if err := decMode.Unmarshal(b, &out); err != nil {
		return nil, err
	}
	return out, nil
}

// Client is the in-process stand-in for the ATP client: it calls the deployed plugin's
// CallableSchema directly, applying the wire encoding to data in both directions.
type Client struct {
	conn    *Conn
	state   *execState
	done    bool
	running sync.WaitGroup // executions in flight (waited for by Close, as the real client waits for its read loop)
	schema  *schema.CallableSchema
	closing chan struct{} // closed by Close: ends the write loops, as the real client's context does
}

func NewClient(conn *Conn) *Client {
	st := &execState{conn: conn}
	return &Client{conn: conn, state: st, schema: newPlugin(conn, st), closing: make(chan struct{})}
}

var schemaCache any

func (c *Client) ReadSchema() (*schema.SchemaSchema, error) {
	vrt.Gosched("env/client.readschema")
	Log("read-schema", c.conn.Key, "", c.conn.ID_, nil, nil)
	if c.conn.Closed {
		return nil, fmt.Errorf("failed to encode start output message (io: read/write on closed pipe)")
	}
	if c.conn.Script.ReadSchemaFails {
		return nil, fmt.Errorf("failed to decode hello message (scripted failure)")
	}
	if schemaCache == nil {
		ser, err := c.schema.SelfSerialize()
		if err != nil {
			return nil, err
		}
		wired, err := Wire(ser)
		if err != nil {
			return nil, err
		}
		schemaCache = wired
	}
	s, err := schema.UnserializeSchema(schemaCache)
	if err != nil {
		return nil, fmt.Errorf("invalid schema (%w)", err)
	}
	if c.conn.Script.Run == RunSchemaMismatch && c.conn.Phase != "prepare" {
		// the deployed plugin is a different version: it lacks the steps
		return &schema.SchemaSchema{StepsValue: map[string]*schema.StepSchema{}}, nil
	}
	return s, nil
}

func (c *Client) Execute(input schema.Input, toStep <-chan schema.Input, fromStep chan<- schema.Input) atp.ExecutionResult {
	vrt.WaitGroupAdd("env/client.exec", &c.running, 1)
	defer vrt.WaitGroupDone("env/client.exec", &c.running)
	w := W
	wired, err := Wire(input.InputData)
	if err != nil {
		return atp.NewErrorExecutionResult(fmt.Errorf("failed to write work start message (%w)", err))
	}
	vrt.Gosched("env/client.exec")
	Log("exec-start", c.conn.Key, input.RunID, c.conn.ID_, wired, nil)
	if c.conn.Closed || c.done {
		Log("exec-end", c.conn.Key, input.RunID, c.conn.ID_, "error", "closed")
		return atp.NewErrorExecutionResult(fmt.Errorf("failed to write work start message (io: read/write on closed pipe)"))
	}
	group := input.RunID
	if w != nil {
		w.Running[group]++
		if w.Running[group] > w.HighWater[group] {
			w.HighWater[group] = w.Running[group]
		}
	}
	// signal pump: the counterpart of the client's write loop plus the server's signal dispatch. Like the
	// real write loop it lives until the signal channel is closed or the client is closed - not merely
	// until the execution ends - so a client that is never closed leaves it behind.
	stop := make(chan struct{})
	executing := true
	if toStep != nil {
		vrt.Go("env/client.sigpump", func() {
			for {
				switch vrt.Select("env/client.sigpump", false, vrt.R(toStep), vrt.R(c.closing)) {
				case 0:
					sig, ok := <-toStep
					if !ok {
						return
					}
					Log("signal", c.conn.Key, sig.RunID, c.conn.ID_, sig.ID, nil)
					data, _ := Wire(sig.InputData)
					if executing && sig.ID == plugin.CancellationSignalSchema.ID() {
						_ = c.schema.CallSignal(context.Background(), sig.RunID, input.ID, sig.ID, data)
					}
				case 1:
					<-c.closing
					return
				}
			}
		})
	}
	if k := c.conn.Script.Run; k == RunBadOutputID || k == RunBadOutputData {
		// the real client hands over whatever the plugin sent; the SDK's server side would not let these
		// through, a plugin written without it can
		executing = false
		vrt.PreClose("env/client.exec.stop", stop)
		close(stop)
		if w != nil {
			w.Running[group]--
		}
		if k == RunBadOutputID {
			Log("exec-end", c.conn.Key, input.RunID, c.conn.ID_, "nosuchoutput", nil)
			return atp.ExecutionResult{OutputID: "nosuchoutput", OutputData: map[any]any{}}
		}
		Log("exec-end", c.conn.Key, input.RunID, c.conn.ID_, "success", "ill-typed")
		return atp.ExecutionResult{OutputID: "success", OutputData: map[any]any{"v": "not a number", "unexpected": []any{uint64(1)}}}
	}
	outputID, outputData, callErr := c.schema.CallStep(context.Background(), input.RunID, input.ID, wired)
	executing = false
	vrt.PreClose("env/client.exec.stop", stop)
	close(stop)
	if w != nil {
		w.Running[group]--
	}
	if c.state.crash != nil {
		msg := c.state.crash.msg
		c.state.crash = nil
		Log("exec-end", c.conn.Key, input.RunID, c.conn.ID_, "crash", msg)
		return atp.NewErrorExecutionResult(fmt.Errorf("failed to read or decode runtime message (%s)", msg))
	}
	if callErr != nil {
		Log("exec-end", c.conn.Key, input.RunID, c.conn.ID_, "error", callErr.Error())
		return atp.NewErrorExecutionResult(fmt.Errorf("step with run ID %q sent error message: %s", input.RunID, callErr.Error()))
	}
	out, err := Wire(outputData)
	if err != nil {
		return atp.NewErrorExecutionResult(err)
	}
	Log("exec-end", c.conn.Key, input.RunID, c.conn.ID_, outputID, out)
	return atp.ExecutionResult{OutputID: outputID, OutputData: out}
}

func (c *Client) Close() error {
	vrt.Gosched("env/client.close")
	Log("client-close", c.conn.Key, "", c.conn.ID_, nil, nil)
	if c.done {
		return nil
	}
	c.done = true
	vrt.PreClose("env/client.close", c.closing)
	close(c.closing)
	// like the real client, wait for the in-flight execution to end
	vrt.WaitGroupWait("env/client.close", &c.running)
	if c.conn.Script.ClientCloseFail {
		return fmt.Errorf("client failed to write client done message (scripted)")
	}
	return nil
}

func (c *Client) Encoder() *cbor.Encoder { return nil }
func (c *Client) Decoder() *cbor.Decoder { return nil }
