package env

import (
	"context"
	"fmt"
	"io"
	"time"

	log "go.arcalot.io/log/v2"
	"go.flow.arcalot.io/deployer"
	"go.flow.arcalot.io/deployer/registry"
	"go.flow.arcalot.io/engine/internal/verif/vrt"
	"go.flow.arcalot.io/pluginsdk/schema"
)

// Config is the configuration of the scripted deployer; Tag is carried into the ledger so
// that deploy-time expressions can be checked.
type Config struct {
	Tag string `json:"tag"`
}

var ConfigSchema = schema.NewTypedScopeSchema[*Config](
	schema.NewStructMappedObjectSchema[*Config](
		"scripted",
		map[string]*schema.PropertySchema{
			"tag": schema.NewPropertySchema(
				schema.NewStringSchema(nil, nil, nil),
				schema.NewDisplayValue(schema.PointerTo("tag"), nil, nil),
				false, nil, nil, nil, schema.PointerTo(`""`), nil,
			),
		},
	),
)

type factory struct{}

func NewFactory() deployer.ConnectorFactory[*Config] { return &factory{} }

func (f factory) Name() string                                  { return "scripted" }
func (f factory) DeploymentType() deployer.DeploymentType      { return "builtin" }
func (f factory) ConfigurationSchema() *schema.TypedScopeSchema[*Config] { return ConfigSchema }
func (f factory) Create(config *Config, _ log.Logger) (deployer.Connector, error) {
	return &connector{cfg: config}, nil
}

// NewRegistry returns a deployer registry holding only the scripted deployer.
func NewRegistry() registry.Registry {
	return registry.New(deployer.Any(NewFactory()))
}

type connector struct {
	cfg *Config
}

// Conn is a deployed scripted plugin.
type Conn struct {
	ID_      int
	Key      string
	Script   *StepScript
	Closed   bool
	closedCh chan struct{}
	Closes   int
	plugin   *schema.CallableSchema
	Phase    string
}

func (c *Conn) Read(_ []byte) (int, error)  { return 0, io.ErrClosedPipe }
func (c *Conn) Write(b []byte) (int, error) { return 0, io.ErrClosedPipe }
func (c *Conn) ID() string                  { return fmt.Sprintf("%s#%d", c.Key, c.ID_) }
func (c *Conn) ClosedCh() <-chan struct{}   { return c.closedCh }

func (c *Conn) Close() error {
	vrt.Gosched("env/conn.close")
	Log("conn-close", c.Key, "", c.ID_, nil, nil)
	c.Closes++
	if !c.Closed {
		c.Closed = true
		vrt.PreClose("env/conn.close", c.closedCh)
		close(c.closedCh)
	}
	if c.Script.ConnCloseFails {
		return fmt.Errorf("scripted: closing the connection failed")
	}
	return nil
}

func (c *connector) Deploy(ctx context.Context, image string) (deployer.Plugin, error) {
	w := W
	if w == nil {
		return nil, fmt.Errorf("scripted deployer used without a world")
	}
	st := w.Script.For(image)
	tag := ""
	if c.cfg != nil {
		tag = c.cfg.Tag
	}
	vrt.Gosched("env/deploy")
	Log("deploy-start", image, "", 0, tag, nil)
	fail := func(err error) (deployer.Plugin, error) {
		Log("deploy-fail", image, "", 0, err.Error(), nil)
		return nil, err
	}
	if st.DeployMS > 0 && st.DeployIgnoreCtx && st.Deploy != DeployHang {
		vrt.Sleep("env/deploy.sleep", time.Duration(st.DeployMS)*time.Millisecond)
	} else if st.DeployMS > 0 && st.Deploy != DeployHang {
		tm := vrt.After("env/deploy.timer", time.Duration(st.DeployMS)*time.Millisecond)
		switch vrt.Select("env/deploy.wait", false, vrt.R(tm), vrt.R(ctx.Done())) {
		case 0:
			<-tm
		case 1:
			<-ctx.Done()
			return fail(fmt.Errorf("scripted: deployment aborted (%w)", ctx.Err()))
		}
	}
	switch {
	case st.Deploy == DeployFail, st.ProbeDeployFail && w.Phase == "prepare":
		return fail(fmt.Errorf("scripted: deployment of %s failed", image))
	case st.Deploy == DeployHang:
		vrt.PreRecv("env/deploy.hang", ctx.Done())
		<-ctx.Done()
		return fail(fmt.Errorf("scripted: deployment aborted (%w)", ctx.Err()))
	}
	w.conns++
	conn := &Conn{ID_: w.conns, Key: image, Script: st, closedCh: make(chan struct{}), Phase: w.Phase}
	Log("deploy-ok", image, "", conn.ID_, tag, nil)
	return conn, nil
}
