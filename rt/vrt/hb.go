package vrt

import "fmt"

// vclock is a vector clock indexed by thread id.
type vclock []uint32

func (v vclock) copy() vclock {
	c := make(vclock, len(v))
	copy(c, v)
	return c
}

func (v *vclock) tick(id int) {
	for len(*v) <= id {
		*v = append(*v, 0)
	}
	(*v)[id]++
}

func (v *vclock) join(o vclock) {
	for len(*v) < len(o) {
		*v = append(*v, 0)
	}
	for i, x := range o {
		if x > (*v)[i] {
			(*v)[i] = x
		}
	}
}

func (v vclock) get(id int) uint32 {
	if id < len(v) {
		return v[id]
	}
	return 0
}

// leq reports whether the epoch (id, c) happened before or at clock v.
func (v vclock) covers(id int, c uint32) bool { return v.get(id) >= c }

// acquire joins the object's clock into the running thread's clock.
func (e *Exec) acquire(obj *vclock) {
	if e.cur != nil && obj != nil {
		e.cur.vc.join(*obj)
	}
}

// release publishes the running thread's clock on the object and advances the thread.
func (e *Exec) release(obj *vclock) {
	if e.cur != nil && obj != nil {
		obj.join(e.cur.vc)
		e.cur.vc.tick(e.cur.ID)
	}
}

// ---------------------------------------------------------------------------------------
// race detector on explicit access probes (FastTrack-like, full read vector)

type Race struct {
	Loc   string
	SiteA string
	SiteB string
	Kind  string
}

type access struct {
	t    int
	c    uint32
	site string
}

type locstate struct {
	name   string
	w      access
	hasW   bool
	reads  map[int]access
	keep   any
}

// Acc records a memory access by the running thread to the location identified by addr.
func Acc(site string, addr any, name string, write bool) {
	e := E
	if e == nil || !e.cfg.Race || e.poisoned || e.cur == nil {
		return
	}
	p := ptrOf(addr)
	if p == 0 {
		return
	}
	ls := e.locs[p]
	if ls == nil {
		ls = &locstate{name: name, reads: map[int]access{}, keep: addr}
		e.locs[p] = ls
	}
	t := e.cur
	if t.vc.get(t.ID) == 0 {
		t.vc.tick(t.ID)
	}
	me := access{t: t.ID, c: t.vc.get(t.ID), site: site}
	report := func(other access, kind string) {
		if len(e.out.Races) < 20 {
			e.out.Races = append(e.out.Races, Race{Loc: ls.name, SiteA: other.site, SiteB: site, Kind: kind})
		}
	}
	if ls.hasW && ls.w.t != t.ID && !t.vc.covers(ls.w.t, ls.w.c) {
		if write {
			report(ls.w, "write-write")
		} else {
			report(ls.w, "write-read")
		}
	}
	if write {
		for _, r := range ls.reads {
			if r.t != t.ID && !t.vc.covers(r.t, r.c) {
				report(r, "read-write")
			}
		}
		ls.w = me
		ls.hasW = true
		ls.reads = map[int]access{}
	} else {
		ls.reads[t.ID] = me
	}
}

func (r Race) String() string {
	return fmt.Sprintf("%s race on %s: %s vs %s", r.Kind, r.Loc, r.SiteA, r.SiteB)
}

// AccMap records an access to a map as a whole (reads: lookups, len, iteration; writes: stores, delete, clear).
func AccMap(site string, m any, name string, write bool) {
	e := E
	if e == nil || !e.cfg.Race || e.poisoned || e.cur == nil {
		return
	}
	Acc(site, m, name, write)
}

// AccR records a read of *p when the surrounding expression evaluates it and hands the pointer back:
// `x.f` is rewritten to `*vrt.AccR(site, &x.f, name)` where a probe before the statement would be too early.
func AccR[T any](site string, p *T, name string) *T {
	Acc(site, p, name, false)
	return p
}

// AccMapR is the same for a map that is looked up / measured inside a larger expression.
func AccMapR[M any](site string, m M, name string) M {
	AccMap(site, m, name, false)
	return m
}
