package vrt

import (
	"time"
	"fmt"
	"reflect"
)

// chstate mirrors what the scheduler must know about a channel beyond len/cap:
// whether it was closed, and the happens-before clocks travelling with buffered values.
type chstate struct {
	closed  bool
	keep    reflect.Value
	queue   []vclock // clocks of values in the buffer, oldest first
	closeVC vclock
}

func (e *Exec) chstateOf(ch reflect.Value) *chstate {
	p := ch.Pointer()
	s := e.chans[p]
	if s == nil {
		s = &chstate{keep: ch}
		e.chans[p] = s
	}
	return s
}

func (e *Exec) isClosed(ch reflect.Value) bool {
	if s := e.chans[ch.Pointer()]; s != nil {
		return s.closed
	}
	return false
}

func (e *Exec) sendReady(ch reflect.Value) bool {
	if !ch.IsValid() || ch.IsNil() {
		return false
	}
	if e.isClosed(ch) {
		return true // the native send panics, as it should
	}
	return ch.Len() < ch.Cap()
}

func (e *Exec) recvReady(ch reflect.Value) bool {
	if !ch.IsValid() || ch.IsNil() {
		return false
	}
	return ch.Len() > 0 || e.isClosed(ch)
}

func chanValue(ch any) reflect.Value {
	v := reflect.ValueOf(ch)
	if v.IsValid() && v.Kind() != reflect.Chan {
		panic(fmt.Sprintf("vrt: not a channel: %T", ch))
	}
	return v
}

func (e *Exec) didSend(ch reflect.Value) {
	s := e.chstateOf(ch)
	if s.closed {
		return
	}
	if ch.Cap() == 0 {
		e.misuse("send on unbuffered channel is not modelled")
	}
	vc := e.cur.vc.copy()
	s.queue = append(s.queue, vc)
	e.cur.vc.tick(e.cur.ID)
}

func (e *Exec) didRecv(ch reflect.Value) {
	s := e.chstateOf(ch)
	if len(s.queue) > 0 {
		e.cur.vc.join(s.queue[0])
		s.queue = s.queue[1:]
		return
	}
	if s.closed {
		e.cur.vc.join(s.closeVC)
	}
}

// PreSend is the scheduling point before a native `ch <- v`.
func PreSend(site string, ch any) {
	e := E
	if e == nil {
		return
	}
	v := chanValue(ch)
	e.point(&op{kind: opSend, site: site, what: "send", ch: v})
	if v.IsValid() && !v.IsNil() {
		e.didSend(v)
	}
}

// PreRecv is the scheduling point before a native `<-ch`.
func PreRecv(site string, ch any) {
	e := E
	if e == nil {
		return
	}
	v := chanValue(ch)
	e.point(&op{kind: opRecv, site: site, what: "recv", ch: v})
	if v.IsValid() && !v.IsNil() {
		e.didRecv(v)
	}
}

// RecvCh is the scheduling point of a receive nested in a larger expression: `<-ch` is rewritten to
// `<-vrt.RecvCh(site, ch)`.
func RecvCh[T any](site string, ch <-chan T) <-chan T {
	PreRecv(site, ch)
	return ch
}

// PreClose is the scheduling point before a native close(ch).
func PreClose(site string, ch any) {
	e := E
	if e == nil {
		return
	}
	v := chanValue(ch)
	e.point(&op{kind: opNone, site: site, what: "close"})
	if v.IsValid() && !v.IsNil() {
		e.markClosed(v)
	}
}

func (e *Exec) markClosed(v reflect.Value) {
	s := e.chstateOf(v)
	if s.closed {
		return // native close panics
	}
	s.closed = true
	if e.cur != nil {
		s.closeVC = e.cur.vc.copy()
		e.cur.vc.tick(e.cur.ID)
	}
}

// SelCase is one communication of a select.
type SelCase struct {
	send bool
	ch   reflect.Value
}

// R is a receive case, S a send case.
func R(ch any) SelCase { return SelCase{false, chanValue(ch)} }
func S(ch any) SelCase { return SelCase{true, chanValue(ch)} }

// Select decides which case of a select statement proceeds; the rewritten code then
// performs that case's native operation, which cannot block. It returns -1 for default.
func Select(site string, hasDefault bool, cases ...SelCase) int {
	e := E
	if e == nil {
		return nativeSelect(hasDefault, cases)
	}
	o := &op{kind: opSelect, site: site, what: "select", hasDefault: hasDefault}
	for _, c := range cases {
		o.cases = append(o.cases, selCase{c.send, c.ch})
	}
	e.point(o)
	var ready []int
	for i, c := range o.cases {
		if c.send && e.sendReady(c.ch) || !c.send && e.recvReady(c.ch) {
			ready = append(ready, i)
		}
	}
	if len(ready) == 0 {
		if !hasDefault {
			panic("vrt: select resumed with no ready case")
		}
		return -1
	}
	k := 0
	if len(ready) > 1 {
		k = e.choose(KSelect, len(ready))
	}
	i := ready[k]
	if o.cases[i].send {
		e.didSend(o.cases[i].ch)
	} else {
		e.didRecv(o.cases[i].ch)
	}
	if e.cfg.Trace {
		e.trace = append(e.trace, TraceEvent{T: e.cur.ID, Site: site, What: fmt.Sprintf("select->%d", i), Now: e.now})
	}
	return i
}

// nativeSelect serves the environment models when they run outside a controlled execution (the
// conformance replay against the real ATP stack): it polls until a case can proceed without
// consuming anything, so that the caller's native operation then succeeds. Only the channel
// shapes the models use are supported: buffered channels, and unbuffered channels that are only
// ever closed.
func nativeSelect(hasDefault bool, cases []SelCase) int {
	for {
		for i, c := range cases {
			if !c.ch.IsValid() || c.ch.IsNil() {
				continue
			}
			if c.send {
				if c.ch.Len() < c.ch.Cap() {
					return i
				}
				continue
			}
			if c.ch.Cap() > 0 {
				if c.ch.Len() > 0 {
					return i
				}
				continue
			}
			if x, ok := c.ch.TryRecv(); x.IsValid() {
				if ok {
					panic("vrt.nativeSelect: value received from an unbuffered channel")
				}
				return i // closed
			}
		}
		if hasDefault {
			return -1
		}
		time.Sleep(200 * time.Microsecond)
	}
}
