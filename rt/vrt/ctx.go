package vrt

import (
	"context"
	"reflect"
	"time"
)

// vctx is the controlled implementation of a cancellable context.
type vctx struct {
	parent   context.Context
	done     chan struct{}
	err      error
	children []*vctx
	deadline time.Time
	hasDL    bool
	tm       *timer
}

func (c *vctx) Deadline() (time.Time, bool) {
	if c.hasDL {
		return c.deadline, true
	}
	if c.parent != nil {
		return c.parent.Deadline()
	}
	return time.Time{}, false
}
func (c *vctx) Done() <-chan struct{} { return c.done }
func (c *vctx) Err() error            { return c.err }
func (c *vctx) Value(k any) any {
	if c.parent != nil {
		return c.parent.Value(k)
	}
	return nil
}

func (e *Exec) newCtx(parent context.Context) *vctx {
	c := &vctx{parent: parent, done: make(chan struct{})}
	e.ctxs[reflect.ValueOf(c.done).Pointer()] = c
	if parent != nil {
		if pd := parent.Done(); pd != nil {
			p := e.ctxs[reflect.ValueOf(pd).Pointer()]
			if p == nil {
				panic("vrt: parent context is cancellable but was not created under the controlled runtime")
			}
			if p.err != nil {
				e.cancelCtx(c, p.err)
			} else {
				p.children = append(p.children, c)
			}
		}
	}
	return c
}

// cancelCtx closes the context and its descendants. No scheduling point inside.
func (e *Exec) cancelCtx(c *vctx, err error) {
	if c.err != nil {
		return
	}
	c.err = err
	e.markClosed(reflect.ValueOf(c.done))
	close(c.done)
	if c.tm != nil {
		c.tm.stopped = true
	}
	for _, ch := range c.children {
		e.cancelCtx(ch, err)
	}
	c.children = nil
}

func (e *Exec) cancelFunc(site string, c *vctx) context.CancelFunc {
	return func() {
		if E != e {
			return // stale context from an earlier execution
		}
		if e.poisoned {
			panic(poison)
		}
		if c.err != nil {
			return
		}
		if !e.inHook {
			e.point(&op{kind: opNone, site: site, what: "cancel"})
		}
		e.cancelCtx(c, context.Canceled)
	}
}

func WithCancel(site string, parent context.Context) (context.Context, context.CancelFunc) {
	e := E
	if e == nil {
		return context.WithCancel(parent)
	}
	if e.poisoned {
		panic(poison)
	}
	c := e.newCtx(parent)
	return c, e.cancelFunc(site, c)
}

func WithTimeout(site string, parent context.Context, d time.Duration) (context.Context, context.CancelFunc) {
	e := E
	if e == nil {
		return context.WithTimeout(parent, d)
	}
	if e.poisoned {
		panic(poison)
	}
	c := e.newCtx(parent)
	c.hasDL = true
	c.deadline = Now(site).Add(d)
	if c.err == nil {
		c.tm = e.addTimer(d, func() {
			// the firing happens in scheduler context: publish the arming thread's clock
			saved := e.cur
			e.cur = nil
			e.cancelCtx(c, context.DeadlineExceeded)
			e.cur = saved
			if s := e.chans[reflect.ValueOf(c.done).Pointer()]; s != nil && c.tm != nil {
				s.closeVC = c.tm.vc
			}
		})
	}
	return c, e.cancelFunc(site, c)
}

func WithDeadline(site string, parent context.Context, t time.Time) (context.Context, context.CancelFunc) {
	if E == nil {
		return context.WithDeadline(parent, t)
	}
	return WithTimeout(site, parent, t.Sub(Now(site)))
}
