package vrt

import (
	"fmt"
	"hash/fnv"
	"time"
)

// Dev is one deviation from the default schedule: at choice point Idx take alternative Choice.
type Dev struct {
	Idx    int
	Choice int
}

// Menu says which kinds of choice points the explorer may deviate at.
type Menu [numKinds]bool

func MenuOf(kinds ...int) Menu {
	var m Menu
	for _, k := range kinds {
		m[k] = true
	}
	return m
}

// Violation is what a check reports for one execution.
type Violation struct {
	Key    string // stable identity: scenario-class/oracle-clause/site-or-field
	Detail string
}

type FoundViolation struct {
	Violation
	Schedule []Dev
	Trace    string
}

type ExploreCfg struct {
	Exec     Config
	Bound    int
	Menu     Menu
	Deadline time.Time
	MaxExecs int
	ShardIdx int
	ShardN   int
	// Check inspects a finished execution; obs is whatever the body recorded.
	Check func(x *Exec) []Violation
	// Outcome returns a canonical string of the observable outcome (for distinct-outcome counting).
	Outcome func(x *Exec) string
	// StopOnViolation ends the exploration at the first violation.
	StopOnViolation bool
}

type ExploreStats struct {
	Execs          int            `json:"execs"`
	Points         int64          `json:"points"`
	ChoicePoints   int64          `json:"choice_points"`
	MaxChoices     int            `json:"max_choices"`
	BoundCompleted int            `json:"bound_completed"`
	Exhaustive     bool           `json:"exhaustive"`
	CapHit         bool           `json:"cap_hit,omitempty"` // MaxExecs (not the deadline) ended the exploration
	Signatures     int            `json:"signatures"`
	Outcomes       map[string]int `json:"outcomes"`
	ByDeviations   []int          `json:"by_deviations"`
	Violations     []FoundViolation `json:"violations,omitempty"`
	HarnessErrors  []string       `json:"harness_errors,omitempty"`
	SampleSchedule []Dev          `json:"sample_schedule,omitempty"`
	sigs           map[uint64]struct{}
	vkeys          map[string]bool
}

func dense(p []Dev) []int {
	if len(p) == 0 {
		return nil
	}
	out := make([]int, p[len(p)-1].Idx+1)
	for _, d := range p {
		out[d.Idx] = d.Choice
	}
	return out
}

// signature hashes the sequence of taken choices that matter (the full choice vector).
func (e *Exec) signature() uint64 {
	h := fnv.New64a()
	var b [8]byte
	for _, t := range e.threads {
		b[0] = byte(t.ID)
		b[1] = byte(t.nops)
		b[2] = byte(t.nops >> 8)
		for i, c := range t.vc {
			b[3] = byte(i)
			b[4] = byte(c)
			b[5] = byte(c >> 8)
			h.Write(b[:6])
		}
		h.Write([]byte{0xff})
	}
	b[0] = byte(e.now)
	b[1] = byte(e.now >> 8)
	b[2] = byte(e.now >> 16)
	h.Write(b[:3])
	return h.Sum64()
}

// Explore enumerates every execution of body that differs from the default schedule in at
// most cfg.Bound choices of the kinds in cfg.Menu (iteratively: 0 deviations, then 1, ...).
func Explore(cfg ExploreCfg, body func()) *ExploreStats {
	st := &ExploreStats{Outcomes: map[string]int{}, sigs: map[uint64]struct{}{}, vkeys: map[string]bool{}, BoundCompleted: -1}
	if cfg.ShardN <= 0 {
		cfg.ShardN = 1
	}
	stop := false
	runOne := func(p []Dev, count bool) *Exec {
		x := Run(cfg.Exec, dense(p), body)
		if !count {
			return x
		}
		st.Execs++
		st.Points += int64(x.Points)
		st.ChoicePoints += int64(len(x.choices))
		if len(x.choices) > st.MaxChoices {
			st.MaxChoices = len(x.choices)
		}
		for len(st.ByDeviations) <= len(p) {
			st.ByDeviations = append(st.ByDeviations, 0)
		}
		st.ByDeviations[len(p)]++
		st.sigs[x.signature()] = struct{}{}
		if x.out.Diverged != "" {
			st.HarnessErrors = append(st.HarnessErrors, fmt.Sprintf("replay divergence under %v: %s", p, x.out.Diverged))
			stop = true
			return x
		}
		if cfg.Outcome != nil {
			st.Outcomes[cfg.Outcome(x)]++
		}
		if cfg.Check != nil {
			for _, v := range cfg.Check(x) {
				if st.vkeys[v.Key] {
					continue
				}
				st.vkeys[v.Key] = true
				// confirm determinism: replay twice with tracing
				tc := cfg.Exec
				tc.Trace = true
				x2 := Run(tc, dense(p), body)
				same := false
				for _, v2 := range cfg.Check(x2) {
					if v2.Key == v.Key {
						same = true
					}
				}
				if !same {
					st.HarnessErrors = append(st.HarnessErrors, fmt.Sprintf("violation %q did not reproduce on replay of %v", v.Key, p))
					stop = true
					continue
				}
				st.Violations = append(st.Violations, FoundViolation{Violation: v, Schedule: append([]Dev{}, p...), Trace: FormatTrace(tailTrace(x2.trace, 400))})
				if cfg.StopOnViolation {
					stop = true
				}
			}
		}
		return x
	}
	expired := func() bool {
		if stop {
			return true
		}
		if cfg.MaxExecs > 0 && st.Execs >= cfg.MaxExecs {
			st.CapHit = true
			return true
		}
		return !cfg.Deadline.IsZero() && time.Now().After(cfg.Deadline)
	}
	// rec explores the subtree under prefix p; executions with exactly `target` deviations are counted.
	var rec func(p []Dev, target int) bool
	rec = func(p []Dev, target int) bool {
		if expired() {
			return false
		}
		x := runOne(p, len(p) == target)
		if len(p) == target {
			return !stop
		}
		from := 0
		if len(p) > 0 {
			from = p[len(p)-1].Idx + 1
		}
		ch := x.choices
		n := 0
		for i := from; i < len(ch); i++ {
			if !cfg.Menu[ch[i].Kind] {
				continue
			}
			for alt := 1; alt < ch[i].N; alt++ {
				if len(p) == 0 {
					n++
					if (n-1)%cfg.ShardN != cfg.ShardIdx {
						continue
					}
				}
				q := append(append(make([]Dev, 0, len(p)+1), p...), Dev{i, alt})
				if !rec(q, target) {
					return false
				}
			}
		}
		return true
	}
	complete := true
	for b := 0; b <= cfg.Bound; b++ {
		if b == 0 && cfg.ShardIdx != 0 {
			// the root execution is counted by shard 0 only
			st.BoundCompleted = 0
			continue
		}
		if !rec(nil, b) {
			complete = false
			break
		}
		st.BoundCompleted = b
	}
	st.Exhaustive = complete && !stop
	st.Signatures = len(st.sigs)
	return st
}

func tailTrace(tr []TraceEvent, n int) []TraceEvent {
	if len(tr) > n {
		return tr[len(tr)-n:]
	}
	return tr
}

// Replay runs one schedule with tracing.
func Replay(cfg Config, sched []Dev, body func()) *Exec {
	cfg.Trace = true
	return Run(cfg, dense(sched), body)
}
