package vrt

import (
	"reflect"
	"time"
)

// epoch is the wall-clock value of virtual time zero.
var epoch = time.Date(2024, 1, 1, 0, 0, 0, 0, time.UTC)

func After(site string, d time.Duration) <-chan time.Time {
	e := E
	if e == nil {
		return time.After(d)
	}
	if e.poisoned {
		panic(poison)
	}
	ch := make(chan time.Time, 1)
	var tm *timer
	tm = e.addTimer(d, func() {
		ch <- epoch.Add(time.Duration(e.now) * time.Millisecond)
		s := e.chstateOf(reflect.ValueOf(ch))
		s.queue = append(s.queue, tm.vc)
	})
	return ch
}

func Sleep(site string, d time.Duration) {
	e := E
	if e == nil {
		time.Sleep(d)
		return
	}
	ms := int64(d / time.Millisecond)
	if d > 0 && ms == 0 {
		ms = 1
	}
	if ms <= 0 {
		e.point(&op{kind: opNone, site: site, what: "sleep0"})
		return
	}
	e.point(&op{kind: opSleep, site: site, what: "sleep", deadline: e.now + ms})
}

func Now(site string) time.Time {
	e := E
	if e == nil {
		return epoch // deterministic outside executions too (seeds, timestamps)
	}
	return epoch.Add(time.Duration(e.now) * time.Millisecond)
}

func Since(site string, t time.Time) time.Duration { return Now(site).Sub(t) }
func Until(site string, t time.Time) time.Duration { return t.Sub(Now(site)) }

// AfterFuncSend sends on ch (which must have buffer space) after ms virtual milliseconds.
func AfterFuncSend(site string, ms int64, ch chan struct{}) {
	e := E
	if e == nil {
		go func() { time.Sleep(time.Duration(ms) * time.Millisecond); ch <- struct{}{} }()
		return
	}
	if e.poisoned {
		panic(poison)
	}
	var tm *timer
	tm = e.addTimer(time.Duration(ms)*time.Millisecond, func() {
		select {
		case ch <- struct{}{}:
			s := e.chstateOf(reflect.ValueOf(ch))
			s.queue = append(s.queue, tm.vc)
		default:
		}
	})
}
