package vrt

import (
	"reflect"
	"sync"
)

type mstate struct {
	locked bool
	owner  int
	vc     vclock
}

type rwstate struct {
	w  bool
	r  int
	vc vclock
}

type wgstate struct {
	n       int
	vc      vclock
	waiters int
}

type oncestate struct {
	done bool
	mu   mstate
	vc   vclock
}

func (e *Exec) mstateOf(m *sync.Mutex) *mstate {
	s := e.mutexes[m]
	if s == nil {
		s = &mstate{owner: -1}
		e.mutexes[m] = s
	}
	return s
}

func MutexLock(site string, m *sync.Mutex) {
	e := E
	if e == nil {
		m.Lock()
		return
	}
	s := e.mstateOf(m)
	e.point(&op{kind: opLock, site: site, what: "lock", mu: s})
	s.locked = true
	s.owner = e.cur.ID
	e.acquire(&s.vc)
}

func MutexTryLock(site string, m *sync.Mutex) bool {
	e := E
	if e == nil {
		return m.TryLock()
	}
	s := e.mstateOf(m)
	e.point(&op{kind: opNone, site: site, what: "trylock"})
	if s.locked {
		return false
	}
	s.locked = true
	s.owner = e.cur.ID
	e.acquire(&s.vc)
	return true
}

func MutexUnlock(site string, m *sync.Mutex) {
	e := E
	if e == nil {
		m.Unlock()
		return
	}
	if e.poisoned {
		panic(poison)
	}
	s := e.mstateOf(m)
	if !s.locked {
		// the real runtime would abort the process with "sync: unlock of unlocked mutex"
		e.misuse("unlock of unlocked mutex at %s", site)
		panic("sync: unlock of unlocked mutex (fatal in a real run) at " + site)
	}
	e.release(&s.vc)
	s.locked = false
	s.owner = -1
	if e.cfg.Trace {
		e.trace = append(e.trace, TraceEvent{T: e.cur.ID, Site: site, What: "unlock", Now: e.now})
	}
}

func (e *Exec) rwstateOf(m *sync.RWMutex) *rwstate {
	s := e.rwmus[m]
	if s == nil {
		s = &rwstate{}
		e.rwmus[m] = s
	}
	return s
}

func RWMutexLock(site string, m *sync.RWMutex) {
	e := E
	if e == nil {
		m.Lock()
		return
	}
	s := e.rwstateOf(m)
	e.point(&op{kind: opLock, site: site, what: "wlock", rw: s})
	s.w = true
	e.acquire(&s.vc)
}

func RWMutexUnlock(site string, m *sync.RWMutex) {
	e := E
	if e == nil {
		m.Unlock()
		return
	}
	if e.poisoned {
		panic(poison)
	}
	s := e.rwstateOf(m)
	if !s.w {
		e.misuse("unlock of unlocked rwmutex at %s", site)
		panic("sync: Unlock of unlocked RWMutex at " + site)
	}
	e.release(&s.vc)
	s.w = false
}

func RWMutexRLock(site string, m *sync.RWMutex) {
	e := E
	if e == nil {
		m.RLock()
		return
	}
	s := e.rwstateOf(m)
	e.point(&op{kind: opRLock, site: site, what: "rlock", rw: s})
	s.r++
	e.acquire(&s.vc)
}

func RWMutexRUnlock(site string, m *sync.RWMutex) {
	e := E
	if e == nil {
		m.RUnlock()
		return
	}
	if e.poisoned {
		panic(poison)
	}
	s := e.rwstateOf(m)
	if s.r <= 0 {
		e.misuse("runlock of unlocked rwmutex at %s", site)
		panic("sync: RUnlock of unlocked RWMutex at " + site)
	}
	e.release(&s.vc)
	s.r--
}

func (e *Exec) wgstateOf(w *sync.WaitGroup) *wgstate {
	s := e.wgs[w]
	if s == nil {
		s = &wgstate{}
		e.wgs[w] = s
	}
	return s
}

func WaitGroupAdd(site string, w *sync.WaitGroup, delta int) {
	e := E
	if e == nil {
		w.Add(delta)
		return
	}
	if e.poisoned {
		panic(poison)
	}
	s := e.wgstateOf(w)
	if delta > 0 && s.n == 0 && s.waiters > 0 {
		// Add from zero while another goroutine is blocked in Wait: forbidden by the sync documentation
		e.misuse("WaitGroup.Add from zero concurrent with Wait at %s", site)
	}
	if delta > 0 && s.n == 0 {
		// remember when the counter left zero to relate it to concurrent Wait calls
		s.vc.join(nil)
	}
	s.n += delta
	if s.n < 0 {
		e.misuse("negative WaitGroup counter at %s", site)
		panic("sync: negative WaitGroup counter at " + site)
	}
	if delta < 0 {
		e.release(&s.vc)
	}
	if e.cfg.Trace {
		e.trace = append(e.trace, TraceEvent{T: e.cur.ID, Site: site, What: "wg.add", Now: e.now})
	}
}

func WaitGroupDone(site string, w *sync.WaitGroup) {
	WaitGroupAdd(site, w, -1)
}

func WaitGroupWait(site string, w *sync.WaitGroup) {
	e := E
	if e == nil {
		w.Wait()
		return
	}
	s := e.wgstateOf(w)
	s.waiters++
	defer func() { s.waiters-- }()
	e.point(&op{kind: opWait, site: site, what: "wg.wait", wg: s})
	e.acquire(&s.vc)
}

func OnceDo(site string, o *sync.Once, f func()) {
	e := E
	if e == nil {
		o.Do(f)
		return
	}
	s := e.onces[o]
	if s == nil {
		s = &oncestate{}
		e.onces[o] = s
	}
	e.point(&op{kind: opLock, site: site, what: "once", mu: &s.mu})
	s.mu.locked = true
	e.acquire(&s.vc)
	defer func() {
		e.release(&s.vc)
		s.mu.locked = false
	}()
	if !s.done {
		s.done = true
		f()
	}
}

// Atomic is a scheduling point before an atomic operation on p; it returns p so that the
// original method call proceeds on the real object. Every atomic operation is treated as
// acquire+release for happens-before.
func Atomic[T any](site string, p *T) *T {
	e := E
	if e == nil {
		return p
	}
	e.point(&op{kind: opNone, site: site, what: "atomic"})
	vc := e.atomics[any(p)]
	if vc == nil {
		vc = &vclock{}
		e.atomics[any(p)] = vc
	}
	e.acquire(vc)
	e.release(vc)
	return p
}

func ptrOf(v any) uintptr {
	rv := reflect.ValueOf(v)
	switch rv.Kind() {
	case reflect.Chan, reflect.Pointer, reflect.Map, reflect.UnsafePointer, reflect.Func, reflect.Slice:
		return rv.Pointer()
	}
	return 0
}
