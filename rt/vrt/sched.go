// Package vrt is the controlled runtime the rewritten engine sources call into.
//
// Exactly one registered thread runs at a time (token passing). Every rewritten
// synchronisation operation is a *point*: the thread publishes its pending operation,
// the scheduler computes the enabled threads and asks the explorer which one runs next.
// All nondeterminism (thread choice, select case, map order, environment answers,
// stalls) goes through Exec.choose, so an execution is a function of its choice sequence.
//
// Outside a controlled execution (E == nil) every wrapper performs the plain operation.
package vrt

import (
	"fmt"
	"reflect"
	"runtime/debug"
	"sort"
	"strings"
	"sync"
	"time"
)

// Choice kinds.
const (
	KPreempt = iota // another thread chosen although the running one is still enabled
	KSwitch         // running thread blocked or ended; which of several enabled threads runs
	KSelect         // several ready select cases
	KMap            // map iteration order
	KEnv            // environment answer (vrt.Choose)
	KStall          // stall injected at a point
	KTimer          // order of timers with equal deadlines
	numKinds
)

var KindNames = [...]string{"preempt", "switch", "select", "map", "env", "stall", "timer"}

type opKind uint8

const (
	opNone opKind = iota // always enabled (start, atomic, cancel, close, go, yield)
	opLock
	opRLock
	opWait
	opSend
	opRecv
	opSelect
	opSleep
	opSettle
	opDead // parked for good (after finish)
)

type selCase struct {
	send bool
	ch   reflect.Value
}

type op struct {
	kind       opKind
	site       string
	what       string
	mu         *mstate
	rw         *rwstate
	wg         *wgstate
	ch         reflect.Value
	cases      []selCase
	hasDefault bool
	deadline   int64
}

// Thread is one controlled goroutine.
type Thread struct {
	ID           int
	Name         string // creation site
	Parent       int
	wake         chan struct{}
	pending      *op
	done         bool
	started      bool
	stalledUntil int64
	daemon       bool // environment helper threads that are not leaks
	wasBlocked   bool // parked on an operation that was not enabled when it was published
	vc           vclock
	nops         int
	sig          uint64 // rolling hash of this thread's (site, op, clock) sequence
}

// ChoiceRec is one recorded choice point.
type ChoiceRec struct {
	N     int
	Kind  uint8
	Taken int
}

// Outcome of one execution.
type Outcome struct {
	Deadlock  bool
	Panic     *PanicInfo
	StepLimit bool
	Diverged  string // replay divergence (harness error)
	Misuse    []string
	Races     []Race
	Blocked   []string // description of blocked threads on deadlock
}

type PanicInfo struct {
	Thread int
	Name   string
	Value  string
	Stack  string
}

type TraceEvent struct {
	T    int
	Site string
	What string
	Now  int64
}

// Config of an execution.
type Config struct {
	Stalls    []int64 // stall lengths in virtual ms offered at every point when the stall menu is on
	StallMenu bool
	MapMenu   bool
	MaxSteps  int
	Trace     bool
	Race      bool // run the vector-clock race detector on Acc probes
	// PointHook, if set, runs in the context of the running thread at every scheduling point
	// (before the scheduling decision); used to place one environment action at any point.
	PointHook func()
}

type timer struct {
	when    int64
	seq     int
	fire    func()
	stopped bool
	vc      vclock
}

// Exec is one controlled execution.
type Exec struct {
	cfg      Config
	threads  []*Thread
	cur      *Thread
	now      int64 // virtual milliseconds
	timers   []*timer
	timerSeq int
	prefix   []int
	choices  []ChoiceRec
	steps    int
	ended    bool
	poisoned bool
	endCh    chan struct{}
	out      Outcome
	trace    []TraceEvent

	mutexes  map[*sync.Mutex]*mstate
	rwmus    map[*sync.RWMutex]*rwstate
	wgs      map[*sync.WaitGroup]*wgstate
	onces    map[*sync.Once]*oncestate
	chans    map[uintptr]*chstate
	atomics  map[any]*vclock
	ctxs     map[uintptr]*vctx
	locs     map[uintptr]*locstate
	keep     []any
	wgReal   sync.WaitGroup
	Points   int
	Switches int
	inHook   bool
	StallsTaken []StallRec
}

// StallRec records one injected stall: the goroutine was held before the operation at Site.
type StallRec struct {
	Thread int
	Site   string
	What   string
	MS     int64
}

// SiteKey returns the edit-stable part of a site id ("Func#k").
func SiteKey(site string) string {
	if i := strings.Index(site, "|"); i >= 0 {
		return site[i+1:]
	}
	return site
}

// E is the current controlled execution (nil outside one).
var E *Exec

type poisonT struct{}

var poison = poisonT{}

// Run executes body as thread 0 under the given choice prefix and returns the execution.
func Run(cfg Config, prefix []int, body func()) *Exec {
	if cfg.MaxSteps == 0 {
		cfg.MaxSteps = 2_000_000
	}
	e := &Exec{
		cfg:     cfg,
		prefix:  prefix,
		endCh:   make(chan struct{}, 1),
		mutexes: map[*sync.Mutex]*mstate{},
		rwmus:   map[*sync.RWMutex]*rwstate{},
		wgs:     map[*sync.WaitGroup]*wgstate{},
		onces:   map[*sync.Once]*oncestate{},
		chans:   map[uintptr]*chstate{},
		atomics: map[any]*vclock{},
		ctxs:    map[uintptr]*vctx{},
		locs:    map[uintptr]*locstate{},
	}
	E = e
	t := e.newThread("main", -1)
	e.cur = t
	e.startThread(t, body)
	t.wake <- struct{}{}
	timeout := time.NewTimer(120 * time.Second)
	select {
	case <-e.endCh:
		timeout.Stop()
	case <-timeout.C:
		// a token holder that never reaches a point: cannot be recovered in-process
		e.out.StepLimit = true
		e.out.Misuse = append(e.out.Misuse, "runaway: no scheduling point reached for 120s of real time")
		E = nil
		return e
	}
	// tear down: poison every parked thread
	e.poisoned = true
	for _, th := range e.threads {
		if !th.done {
			select {
			case th.wake <- struct{}{}:
			default:
			}
		}
	}
	done := make(chan struct{})
	go func() { e.wgReal.Wait(); close(done) }()
	select {
	case <-done:
	case <-time.After(30 * time.Second):
		e.out.Misuse = append(e.out.Misuse, "teardown: threads did not unwind")
	}
	E = nil
	return e
}

func (e *Exec) Choices() []ChoiceRec { return e.choices }
func (e *Exec) Outcome() *Outcome    { return &e.out }
func (e *Exec) Trace() []TraceEvent  { return e.trace }
func (e *Exec) NowMS() int64         { return e.now }
func (e *Exec) Steps() int           { return e.steps }

func (e *Exec) newThread(name string, parent int) *Thread {
	t := &Thread{ID: len(e.threads), Name: name, Parent: parent, wake: make(chan struct{}, 1)}
	e.threads = append(e.threads, t)
	return t
}

func (e *Exec) startThread(t *Thread, body func()) {
	e.wgReal.Add(1)
	go func() {
		defer e.wgReal.Done()
		<-t.wake
		if e.poisoned {
			t.done = true
			return
		}
		t.started = true
		defer func() {
			r := recover()
			if _, isPoison := r.(poisonT); isPoison || e.poisoned {
				t.done = true
				return
			}
			if r != nil {
				e.out.Panic = &PanicInfo{Thread: t.ID, Name: t.Name, Value: fmt.Sprint(r), Stack: string(debug.Stack())}
				t.done = true
				e.finish()
				return
			}
			t.done = true
			e.threadExit(t)
		}()
		body()
	}()
}

// threadExit hands the token on after a thread's body returned.
func (e *Exec) threadExit(t *Thread) {
	defer func() {
		// finish() inside schedule parks via panic(poison) only for live threads; swallow here
		if r := recover(); r != nil {
			if _, ok := r.(poisonT); !ok {
				panic(r)
			}
		}
	}()
	e.schedule(t)
}

func (e *Exec) finish() {
	if !e.ended {
		e.ended = true
		e.endCh <- struct{}{}
	}
}

func (e *Exec) park(t *Thread) {
	<-t.wake
	if e.poisoned {
		panic(poison)
	}
}

func (e *Exec) choose(kind uint8, n int) int {
	if n <= 1 {
		return 0
	}
	i := len(e.choices)
	c := 0
	if i < len(e.prefix) {
		c = e.prefix[i]
		if c >= n || c < 0 {
			if e.out.Diverged == "" {
				e.out.Diverged = fmt.Sprintf("choice %d: prefix wants %d but only %d alternatives (kind %s)", i, c, n, KindNames[kind])
			}
			c = 0
		}
	}
	e.choices = append(e.choices, ChoiceRec{N: n, Kind: kind, Taken: c})
	return c
}

func (e *Exec) enabled(t *Thread) bool {
	if t.done || t.pending == nil {
		return false
	}
	if t.stalledUntil > e.now {
		return false
	}
	o := t.pending
	switch o.kind {
	case opNone:
		return true
	case opLock:
		if o.mu != nil {
			return !o.mu.locked
		}
		return !o.rw.w && o.rw.r == 0
	case opRLock:
		return !o.rw.w
	case opWait:
		return o.wg.n == 0
	case opSend:
		return e.sendReady(o.ch)
	case opRecv:
		return e.recvReady(o.ch)
	case opSelect:
		if o.hasDefault {
			return true
		}
		for _, c := range o.cases {
			if c.send && e.sendReady(c.ch) || !c.send && e.recvReady(c.ch) {
				return true
			}
		}
		return false
	case opSleep:
		return e.now >= o.deadline
	case opSettle, opDead:
		return false
	}
	return false
}

// schedule picks the next thread to run. It returns when t holds the token again
// (its pending operation is then enabled), or immediately if t is done.
func (e *Exec) schedule(t *Thread) {
	for {
		if e.ended {
			if t.done {
				return
			}
			t.pending = &op{kind: opDead}
			e.park(t)
		}
		var en []*Thread
		if e.enabled(t) {
			en = append(en, t)
		}
		for _, th := range e.threads {
			if th != t && e.enabled(th) {
				en = append(en, th)
			}
		}
		if len(en) == 0 {
			// settle waiters run before time advances
			var settle *Thread
			for _, th := range e.threads {
				if !th.done && th.pending != nil && th.pending.kind == opSettle && th.stalledUntil <= e.now {
					settle = th
					break
				}
			}
			if settle != nil {
				en = []*Thread{settle}
			} else if e.advanceTime() {
				continue
			} else {
				live := 0
				for _, th := range e.threads {
					if !th.done {
						live++
					}
				}
				if live > 0 {
					e.out.Deadlock = true
					for _, th := range e.threads {
						if !th.done {
							d := "?"
							if th.pending != nil {
								d = th.pending.what + "@" + th.pending.site
							}
							e.out.Blocked = append(e.out.Blocked, fmt.Sprintf("T%d(%s) blocked at %s", th.ID, th.Name, d))
						}
					}
				}
				e.finish()
				continue
			}
		}
		idx := 0
		if len(en) > 1 {
			kind := uint8(KSwitch)
			if en[0] == t {
				kind = KPreempt
			}
			idx = e.choose(kind, len(en))
		}
		next := en[idx]
		if next.wasBlocked && e.cfg.StallMenu && len(e.cfg.Stalls) > 0 && !e.poisoned && !e.ended {
			// a goroutine that was blocked and can now proceed may be slow to wake up
			next.wasBlocked = false
			if k := e.choose(KStall, 1+len(e.cfg.Stalls)); k > 0 {
				next.stalledUntil = e.now + e.cfg.Stalls[k-1]
				what, site := "?", "?"
				if next.pending != nil {
					what, site = next.pending.what, next.pending.site
				}
				e.StallsTaken = append(e.StallsTaken, StallRec{Thread: next.ID, Site: site, What: "wakeup-" + what, MS: e.cfg.Stalls[k-1]})
				continue
			}
		}
		next.wasBlocked = false
		if next == t {
			return
		}
		e.Switches++
		e.cur = next
		next.wake <- struct{}{}
		if t.done {
			return
		}
		e.park(t)
		return
	}
}

// point is called by the running thread before a visible operation.
func (e *Exec) point(o *op) {
	if e.poisoned {
		panic(poison)
	}
	t := e.cur
	e.steps++
	e.Points++
	if e.steps > e.cfg.MaxSteps {
		e.out.StepLimit = true
		e.finish()
	}
	if e.cfg.PointHook != nil && !e.inHook {
		e.inHook = true
		e.cfg.PointHook()
		e.inHook = false
	}
	if e.cfg.StallMenu && len(e.cfg.Stalls) > 0 {
		if k := e.choose(KStall, 1+len(e.cfg.Stalls)); k > 0 {
			t.stalledUntil = e.now + e.cfg.Stalls[k-1]
			e.StallsTaken = append(e.StallsTaken, StallRec{Thread: t.ID, Site: o.site, What: o.what, MS: e.cfg.Stalls[k-1]})
		}
	}
	t.pending = o
	if o.kind != opNone && o.kind != opSettle && !e.enabled(t) {
		t.wasBlocked = true
	}
	e.schedule(t)
	t.pending = nil
	t.nops++
	if e.cfg.Trace {
		e.trace = append(e.trace, TraceEvent{T: t.ID, Site: o.site, What: o.what, Now: e.now})
	}
}

// advanceTime moves the virtual clock to the next deadline and fires due timers.
func (e *Exec) advanceTime() bool {
	const inf = int64(1) << 62
	next := inf
	for _, tm := range e.timers {
		if !tm.stopped && tm.when < next {
			next = tm.when
		}
	}
	for _, th := range e.threads {
		if th.done || th.pending == nil {
			continue
		}
		if th.stalledUntil > e.now && th.stalledUntil < next {
			next = th.stalledUntil
		}
		if th.pending.kind == opSleep && th.pending.deadline > e.now && th.pending.deadline < next {
			next = th.pending.deadline
		}
	}
	if next == inf {
		return false
	}
	if next > e.now {
		e.now = next
	}
	e.fireTimers()
	return true
}

func (e *Exec) fireTimers() {
	for {
		var due []*timer
		for _, tm := range e.timers {
			if !tm.stopped && tm.when <= e.now {
				due = append(due, tm)
			}
		}
		if len(due) == 0 {
			break
		}
		sort.SliceStable(due, func(i, j int) bool {
			if due[i].when != due[j].when {
				return due[i].when < due[j].when
			}
			return due[i].seq < due[j].seq
		})
		tm := due[0]
		tm.stopped = true
		tm.fire()
	}
	// drop stopped timers
	k := 0
	for _, tm := range e.timers {
		if !tm.stopped {
			e.timers[k] = tm
			k++
		}
	}
	e.timers = e.timers[:k]
}

func (e *Exec) addTimer(d time.Duration, fire func()) *timer {
	ms := int64(d / time.Millisecond)
	if d > 0 && ms == 0 {
		ms = 1
	}
	if ms < 0 {
		ms = 0
	}
	e.timerSeq++
	tm := &timer{when: e.now + ms, seq: e.timerSeq, fire: fire}
	if e.cur != nil {
		tm.vc = e.cur.vc.copy()
	}
	e.timers = append(e.timers, tm)
	return tm
}

// ---------------------------------------------------------------------------------------
// public API used by rewritten code and by the harness

// Go starts a controlled thread.
func Go(site string, f func()) {
	e := E
	if e == nil {
		go f()
		return
	}
	if e.poisoned {
		panic(poison)
	}
	parent := e.cur
	t := e.newThread(site, parent.ID)
	t.vc = parent.vc.copy()
	parent.vc.tick(parent.ID)
	t.pending = &op{kind: opNone, site: site, what: "start"}
	e.startThread(t, f)
	e.point(&op{kind: opNone, site: site, what: "go"})
}

// GoDaemon starts a controlled helper thread that is not counted as a leak.
func GoDaemon(site string, f func()) {
	e := E
	if e == nil {
		go f()
		return
	}
	n := len(e.threads)
	Go(site, f)
	e.threads[n].daemon = true
}

// Gosched is a plain scheduling point.
func Gosched(site string) {
	if e := E; e != nil {
		e.point(&op{kind: opNone, site: site, what: "yield"})
	}
}

// Choose is an environment choice with n alternatives (default 0).
func Choose(site string, n int) int {
	e := E
	if e == nil {
		return 0
	}
	if e.poisoned {
		panic(poison)
	}
	return e.choose(KEnv, n)
}

// Settle blocks the caller until no other thread can run at the current virtual time and
// returns descriptions of the threads that are still alive (excluding the caller and daemons).
func Settle(site string) []string {
	e := E
	if e == nil {
		return nil
	}
	e.point(&op{kind: opSettle, site: site, what: "settle"})
	var live []string
	for _, th := range e.threads {
		if th == e.cur || th.done || th.daemon {
			continue
		}
		d := "?"
		if th.pending != nil {
			d = th.pending.what + "@" + th.pending.site
		}
		live = append(live, fmt.Sprintf("T%d(%s) at %s", th.ID, th.Name, d))
	}
	return live
}

// Controlled reports whether a controlled execution is active.
func Controlled() bool { return E != nil }

// NowMS returns the virtual time in milliseconds (0 outside an execution).
func NowMS() int64 {
	if e := E; e != nil {
		return e.now
	}
	return 0
}

// CurrentThread returns the id of the running thread (or -1).
func CurrentThread() int {
	if e := E; e != nil && e.cur != nil {
		return e.cur.ID
	}
	return -1
}

// Misuse records a primitive misuse (reported by checks that care).
func (e *Exec) misuse(f string, a ...any) {
	e.out.Misuse = append(e.out.Misuse, fmt.Sprintf(f, a...))
}

// FormatTrace renders a trace.
func FormatTrace(tr []TraceEvent) string {
	var sb strings.Builder
	for _, ev := range tr {
		fmt.Fprintf(&sb, "  t=%-6d T%-2d %-12s %s\n", ev.Now, ev.T, ev.What, ev.Site)
	}
	return sb.String()
}
