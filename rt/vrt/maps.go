package vrt

import (
	"fmt"
	"reflect"
	"sort"
)

// MapEntry is one step of a controlled map iteration; Get looks the key up in the live
// map so that entries deleted during the iteration are skipped as Go specifies.
type MapEntry[K comparable, V any] struct {
	m map[K]V
	k K
}

func (e MapEntry[K, V]) Get() (K, V, bool) {
	v, ok := e.m[e.k]
	return e.k, v, ok
}

func keyLess(a, b any) bool {
	switch x := a.(type) {
	case string:
		if y, ok := b.(string); ok {
			return x < y
		}
	case int:
		if y, ok := b.(int); ok {
			return x < y
		}
	case int64:
		if y, ok := b.(int64); ok {
			return x < y
		}
	}
	return fmt.Sprintf("%T:%v", a, a) < fmt.Sprintf("%T:%v", b, b)
}

// permIndex returns how many alternative orders a collection of n keys offers:
// all permutations up to 3 keys, rotations and the reversal above.
func orderAlternatives(n int) int {
	switch {
	case n <= 1:
		return 1
	case n == 2:
		return 2
	case n == 3:
		return 6
	default:
		return n + 1
	}
}

func applyOrder[T any](keys []T, alt int) []T {
	n := len(keys)
	if alt == 0 || n <= 1 {
		return keys
	}
	out := make([]T, n)
	switch {
	case n == 2:
		out[0], out[1] = keys[1], keys[0]
	case n == 3:
		perms := [6][3]int{{0, 1, 2}, {0, 2, 1}, {1, 0, 2}, {1, 2, 0}, {2, 0, 1}, {2, 1, 0}}
		for i, j := range perms[alt] {
			out[i] = keys[j]
		}
	default:
		if alt == n { // reversal
			for i := range keys {
				out[i] = keys[n-1-i]
			}
		} else { // rotation by alt
			for i := range keys {
				out[i] = keys[(i+alt)%n]
			}
		}
	}
	return out
}

// MapIter returns the entries of m in the controlled order (sorted by default).
func MapIter[M ~map[K]V, K comparable, V any](site string, m M) []MapEntry[K, V] {
	keys := make([]K, 0, len(m))
	for k := range m {
		keys = append(keys, k)
	}
	sort.Slice(keys, func(i, j int) bool { return keyLess(any(keys[i]), any(keys[j])) })
	if e := E; e != nil && e.cfg.MapMenu && !e.poisoned && len(keys) > 1 {
		keys = applyOrder(keys, e.choose(KMap, orderAlternatives(len(keys))))
	}
	keys = applyPolicy(site, keys)
	out := make([]MapEntry[K, V], len(keys))
	for i, k := range keys {
		out[i] = MapEntry[K, V]{m, k}
	}
	return out
}

// ReflectMapKeys is reflect.Value.MapKeys in the controlled order.
func ReflectMapKeys(site string, v reflect.Value) []reflect.Value {
	keys := v.MapKeys()
	sort.Slice(keys, func(i, j int) bool { return keyLess(keys[i].Interface(), keys[j].Interface()) })
	if e := E; e != nil && e.cfg.MapMenu && !e.poisoned && len(keys) > 1 {
		keys = applyOrder(keys, e.choose(KMap, orderAlternatives(len(keys))))
	}
	return applyPolicy(site, keys)
}

// Site-keyed iteration policies: MapPolicy[siteKey] selects, for every visit of that site, one of
// the generic reorderings below (0 sorted, 1 reversed, 2 rotated by one, 3 rotated by two, 4 first two swapped).
// Unlike sequence-indexed choices they do not depend on the order in which sites are visited.
var MapPolicy map[string]int

// MapSeen, when non-nil, records the largest key count seen per site.
var MapSeen map[string]int

const MapPolicyAlternatives = 4

func applyPolicy[T any](site string, keys []T) []T {
	if MapSeen == nil && MapPolicy == nil {
		return keys
	}
	k := SiteKey(site)
	if MapSeen != nil && len(keys) > MapSeen[k] {
		MapSeen[k] = len(keys)
	}
	alt := MapPolicy[k]
	n := len(keys)
	if alt == 0 || n < 2 {
		return keys
	}
	out := make([]T, n)
	switch alt {
	case 1:
		for i := range keys {
			out[i] = keys[n-1-i]
		}
	case 2, 3:
		r := alt - 1
		for i := range keys {
			out[i] = keys[(i+r)%n]
		}
	default:
		copy(out, keys)
		out[0], out[1] = out[1], out[0]
	}
	return out
}
