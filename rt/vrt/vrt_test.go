package vrt

import (
	"sync"
	"testing"
	"time"
	"context"
)

func TestDeadlockABBA(t *testing.T) {
	var found int
	st := Explore(ExploreCfg{Bound: 2, Menu: MenuOf(KPreempt, KSwitch), Check: func(x *Exec) []Violation {
		if x.Outcome().Deadlock {
			found++
			return []Violation{{Key: "deadlock", Detail: "abba"}}
		}
		return nil
	}}, func() {
		var a, b sync.Mutex
		var wg sync.WaitGroup
		WaitGroupAdd("s", &wg, 2)
		Go("t1", func() {
			MutexLock("a1", &a)
			MutexLock("b1", &b)
			MutexUnlock("b1u", &b)
			MutexUnlock("a1u", &a)
			WaitGroupDone("d1", &wg)
		})
		Go("t2", func() {
			MutexLock("b2", &b)
			MutexLock("a2", &a)
			MutexUnlock("a2u", &a)
			MutexUnlock("b2u", &b)
			WaitGroupDone("d2", &wg)
		})
		WaitGroupWait("w", &wg)
	})
	t.Logf("execs=%d found=%d bound=%d sigs=%d viol=%v", st.Execs, found, st.BoundCompleted, st.Signatures, st.Violations)
	if found == 0 {
		t.Fatal("deadlock not found")
	}
	if len(st.HarnessErrors) > 0 {
		t.Fatal(st.HarnessErrors)
	}
}

func TestTimersAndSelect(t *testing.T) {
	var res []int64
	st := Explore(ExploreCfg{Bound: 1, Menu: MenuOf(KPreempt, KSwitch, KSelect)}, func() {
		ctx, cancel := WithTimeout("c", context.Background(), 50*time.Millisecond)
		defer cancel()
		ch := make(chan int, 1)
		Go("w", func() {
			Sleep("s", 10*time.Millisecond)
			PreSend("snd", ch)
			ch <- 1
		})
		switch Select("sel", false, R(ch), R(ctx.Done())) {
		case 0:
			<-ch
			res = append(res, NowMS())
		case 1:
			<-ctx.Done()
			res = append(res, -NowMS())
		}
	})
	t.Logf("execs=%d res=%v", st.Execs, res)
	for _, r := range res {
		if r != 10 {
			t.Fatalf("unexpected %d", r)
		}
	}
}
