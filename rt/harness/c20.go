package main

import (
	"context"
	"fmt"
	"os"
	"path/filepath"
	"strings"
	"time"

	"go.flow.arcalot.io/engine/internal/verif/env"
	"go.flow.arcalot.io/engine/internal/verif/vrt"
	"go.flow.arcalot.io/engine/loadfile"
)

// ---------------------------------------------------------------------------------------
// C20: engine entry points classify results and resolve files consistently.

// aliases: sub-workflow references as the workflow texts spell them -> the file they mean (the direct
// Prepare+Execute reference is given the file contents under the spelling the text uses)
type c20Tree struct {
	aliases map[string]string
	name    string
	files   map[string]string // relative file name -> text; "workflow.yaml" is the root
	leafs   []string          // plugin step ids (script keys)
}

func c20Loop(file, inputSchema, itemExpr, otherID string, explicit string) string {
	s := "version: v0.2.0\ninput:\n" + indent(inputSchema, 2) + "steps:\n  l:\n    kind: foreach\n    workflow: " + file + "\n    parallelism: 2\n    items:\n      - v: !expr " + itemExpr + "\n      - v: 40\noutputs:\n  success:\n    d: !expr $.steps.l.outputs.success.data\n"
	if otherID != "" {
		s += "  " + otherID + ":\n    e: !expr $.steps.l.failed.error.errors\n"
	}
	return s + explicit
}

func c20Leaf(otherID, explicit string, inputSchema, ref string) string {
	s := "version: v0.2.0\ninput:\n" + indent(inputSchema, 2) + "steps:\n  leaf:\n    plugin:\n      src: leaf\n      deployment_type: builtin\n    step: run\n    input:\n      v: !expr " + ref + "\noutputs:\n  success:\n    r: !expr $.steps.leaf.outputs.success.v\n"
	if otherID != "" {
		s += "  " + otherID + ":\n    e: !expr $.steps.leaf.outputs.error.error\n"
	}
	return s + explicit
}

const c20LeafExplicit = `outputSchema:
  success:
    error: %v
    schema:
      root: S
      objects:
        S:
          id: S
          properties:
            r:
              type:
                type_id: integer
  %s:
    error: %v
    schema:
      root: E
      objects:
        E:
          id: E
          properties:
            e:
              type:
                type_id: string
`

func c20Trees(otherID string, explicit *[2]bool) []*c20Tree {
	leafExplicit := ""
	if explicit != nil {
		leafExplicit = fmt.Sprintf(c20LeafExplicit, explicit[0], otherID, explicit[1])
	}
	sub := subInputSchema
	trees := []*c20Tree{
		{name: "depth0", files: map[string]string{"workflow.yaml": c20Leaf(otherID, leafExplicit, defaultInputSchema, "$.input.n")}},
	}
	if explicit == nil {
		leaf := c20Leaf("", "", sub, "$.input.v")
		trees = append(trees,
			&c20Tree{name: "depth1", files: map[string]string{"workflow.yaml": c20Loop("leaf.yaml", defaultInputSchema, "$.input.n", otherID, ""), "leaf.yaml": leaf}},
			&c20Tree{name: "depth2", files: map[string]string{"workflow.yaml": c20Loop("mid.yaml", defaultInputSchema, "$.input.n", otherID, ""), "mid.yaml": c20Loop("leaf.yaml", sub, "$.input.v", "", ""), "leaf.yaml": leaf}},
			&c20Tree{name: "depth3", files: map[string]string{"workflow.yaml": c20Loop("m1.yaml", defaultInputSchema, "$.input.n", otherID, ""), "m1.yaml": c20Loop("m2.yaml", sub, "$.input.v", "", ""), "m2.yaml": c20Loop("leaf.yaml", sub, "$.input.v", "", ""), "leaf.yaml": leaf}},
			&c20Tree{name: "diamond", files: map[string]string{
				"workflow.yaml": strings.Replace(c20Loop("a.yaml", defaultInputSchema, "$.input.n", otherID, ""), "outputs:\n", "  l2:\n    kind: foreach\n    workflow: b.yaml\n    items:\n      - v: !expr $.input.n\n    wait_for: !expr $.steps.l.outputs\noutputs:\n", 1),
				"a.yaml":        c20Loop("leaf.yaml", sub, "$.input.v", "", ""), "b.yaml": c20Loop("leaf.yaml", sub, "$.input.v", "", ""), "leaf.yaml": leaf}},
			&c20Tree{name: "siblings", files: map[string]string{
				"workflow.yaml": strings.Replace(c20Loop("a.yaml", defaultInputSchema, "$.input.n", otherID, ""), "outputs:\n", "  l2:\n    kind: foreach\n    workflow: b.yaml\n    items:\n      - v: !expr $.input.n\n    wait_for: !expr $.steps.l.outputs\noutputs:\n", 1),
				"a.yaml":        c20Loop("a2.yaml", sub, "$.input.v", "", ""), "b.yaml": c20Loop("b2.yaml", sub, "$.input.v", "", ""), "a2.yaml": leaf, "b2.yaml": leaf}},
			// one sub-workflow used at two nesting levels
			&c20Tree{name: "sharedlevels", files: map[string]string{
				"workflow.yaml": strings.Replace(c20Loop("mid.yaml", defaultInputSchema, "$.input.n", otherID, ""), "outputs:\n", "  l2:\n    kind: foreach\n    workflow: leaf.yaml\n    items:\n      - v: !expr $.input.n\n    wait_for: !expr $.steps.l.outputs\noutputs:\n", 1),
				"mid.yaml":      c20Loop("leaf.yaml", sub, "$.input.v", "", ""), "leaf.yaml": leaf}},
			&c20Tree{name: "sharedlevels2", files: map[string]string{
				"workflow.yaml": strings.Replace(c20Loop("a.yaml", defaultInputSchema, "$.input.n", otherID, ""), "outputs:\n", "  l2:\n    kind: foreach\n    workflow: z.yaml\n    items:\n      - v: !expr $.input.n\n    wait_for: !expr $.steps.l.outputs\noutputs:\n", 1),
				"z.yaml":        c20Loop("m.yaml", sub, "$.input.v", "", ""), "m.yaml": c20Loop("a.yaml", sub, "$.input.v", "", ""), "a.yaml": leaf}},
			// paths that are not in canonical form
			&c20Tree{name: "dotslash", aliases: map[string]string{"./leaf.yaml": "leaf.yaml"}, files: map[string]string{"workflow.yaml": c20Loop("./leaf.yaml", defaultInputSchema, "$.input.n", otherID, ""), "leaf.yaml": leaf}},
			&c20Tree{name: "dotdot", aliases: map[string]string{"sub/../leaf.yaml": "leaf.yaml"}, files: map[string]string{"workflow.yaml": c20Loop("sub/../leaf.yaml", defaultInputSchema, "$.input.n", otherID, ""), "leaf.yaml": leaf, "sub/keep.yaml": leaf}},
			&c20Tree{name: "dblslash", aliases: map[string]string{"sub//leaf.yaml": "sub/leaf.yaml"}, files: map[string]string{"workflow.yaml": c20Loop("sub//leaf.yaml", defaultInputSchema, "$.input.n", otherID, ""), "sub/leaf.yaml": leaf}},
			&c20Tree{name: "nesteddotslash", aliases: map[string]string{"./sub/leaf.yaml": "sub/leaf.yaml"}, files: map[string]string{"workflow.yaml": c20Loop("sub/mid.yaml", defaultInputSchema, "$.input.n", otherID, ""),
				"sub/mid.yaml": c20Loop("./sub/leaf.yaml", sub, "$.input.v", "", ""), "sub/leaf.yaml": leaf}},
			&c20Tree{name: "subdir", files: map[string]string{"workflow.yaml": c20Loop("sub/leaf.yaml", defaultInputSchema, "$.input.n", otherID, ""), "sub/leaf.yaml": leaf}},
		)
	}
	return trees
}

type c20Result struct {
	id    string
	data  string
	isErr bool
	err   string
}

func (r c20Result) String() string {
	if r.err != "" {
		return "error(" + short(r.err, 120) + ")"
	}
	return fmt.Sprintf("%s %s error=%v", r.id, r.data, r.isErr)
}

// c20Run runs one entry point inside a controlled execution (default schedule).
func c20Run(script *env.Script, f func(ctx context.Context) c20Result) (c20Result, *vrt.Exec) {
	var res c20Result
	x := vrt.Run(vrt.Config{MaxSteps: 500000}, nil, func() {
		w := env.NewWorld(script)
		w.Phase = "prepare"
		env.W = w
		ctx, cancel := vrt.WithCancel("harness/c20", context.Background())
		defer cancel()
		res = f(ctx)
		vrt.Settle("harness/c20")
	})
	return res, x
}

func c20Unit(otherID string, explicit *[2]bool, tag string) *Unit {
	return &Unit{Name: "outputs/" + tag, Run: func(deadline time.Time) *UnitResult {
		res := &UnitResult{Exhaustive: true, BoundCompleted: 1}
		seen := map[string]bool{}
		add := func(key, detail string) {
			if !seen[key] {
				seen[key] = true
				res.Violations = append(res.Violations, vrt.FoundViolation{Violation: vrt.Violation{Key: key, Detail: detail}})
			}
		}
		origWD, _ := os.Getwd()
		defer os.Chdir(origWD)
		outcomes := map[string]bool{}
		for _, tree := range c20Trees(otherID, explicit) {
			base, err := os.MkdirTemp(scratchRoot(), "c20-")
			if err != nil {
				res.HarnessErrors = append(res.HarnessErrors, err.Error())
				return res
			}
			ctxDir := filepath.Join(base, "ctx")
			unrelated := filepath.Join(base, "elsewhere")
			_ = os.MkdirAll(unrelated, 0o755)
			for name, text := range tree.files {
				p := filepath.Join(ctxDir, name)
				_ = os.MkdirAll(filepath.Dir(p), 0o755)
				_ = os.WriteFile(p, []byte(text), 0o644)
			}
			contents := map[string][]byte{}
			for name, text := range tree.files {
				contents[name] = []byte(text)
			}
			for spelling, name := range tree.aliases {
				contents[spelling] = []byte(tree.files[name])
			}
			for _, leafKind := range []env.RunKind{env.RunSuccess, env.RunErrorOut, env.RunCrash} {
				if otherID == "" && leafKind != env.RunSuccess {
					continue
				}
				script := &env.Script{Default: env.StepScript{Run: leafKind}, Steps: map[string]*env.StepScript{}}
				input := []byte("n: 3\n")
				// reference: direct prepare + execute on the same text
				direct, dx := c20Run(script, func(ctx context.Context) c20Result {
					pw, err := prepare(tree.files["workflow.yaml"], contents)
					if err != nil {
						return c20Result{err: "prepare: " + err.Error()}
					}
					env.W.Phase = "run"
					id, data, err := pw.Execute(ctx, map[string]any{"n": "3"})
					if err != nil {
						return c20Result{err: err.Error()}
					}
					return c20Result{id: id, data: canonStr(data), isErr: pw.OutputSchema()[id].Error()}
				})
				res.Execs++
				if dx.Outcome().Panic != nil || dx.Outcome().Deadlock {
					continue
				}
				// expected error flag
				if direct.err == "" {
					wantErr := direct.id == "error"
					if explicit != nil {
						wantErr = explicit[1]
						if direct.id == "success" {
							wantErr = explicit[0]
						}
					}
					if direct.isErr != wantErr {
						add(tree.name+"/wrong-error-flag/"+direct.id, fmt.Sprintf("output %s of tree %s (%s) is flagged error=%v, expected %v", direct.id, tree.name, tag, direct.isErr, wantErr))
					}
				}
				type variant struct {
					name   string
					cwd    string
					dirArg func() string
					policy map[string]int
					cwdRun string // if set: the working directory is changed to it after the file cache was built
				}
				rel := func(from string) func() string {
					return func() string {
						r, err := filepath.Rel(from, ctxDir)
						if err != nil {
							return ctxDir
						}
						return r
					}
				}
				abs := func() string { return ctxDir }
				rev := map[string]int{"StepWorkflowPaths#1": 1, "NewFileCacheUsingContext#1": 1, "fileCache.LoadContext#1": 1, "fileCache.Contents#1": 1, "MergeFileCaches#1": 1, "MergeFileCaches#2": 1, "collectSubworkflows#1": 1, "SubworkflowCache#1": 1}
				variants := []variant{
					{"abs/cwd=ctx", ctxDir, abs, nil, ""}, {"abs/cwd=parent", base, abs, nil, ""}, {"abs/cwd=unrelated", unrelated, abs, nil, ""},
					{"rel/cwd=ctx", ctxDir, rel(ctxDir), nil, ""}, {"rel/cwd=parent", base, rel(base), nil, ""}, {"rel/cwd=unrelated", unrelated, rel(unrelated), nil, ""},
					{"abs/cwd=unrelated/reversed-file-maps", unrelated, abs, rev, ""},
					// the directory is changed between building the file cache and parsing / running
					{"rel/cwd=parent->unrelated", base, rel(base), nil, unrelated},
					{"rel/cwd=ctx->parent", ctxDir, rel(ctxDir), nil, base},
				}
				for _, v := range variants {
					if time.Now().After(deadline) {
						res.Exhaustive = false
						break
					}
					for _, entry := range []string{"RunWorkflow", "Parse+Run"} {
						_ = os.Chdir(v.cwd)
						vrt.MapPolicy = v.policy
						got, gx := c20Run(script, func(ctx context.Context) c20Result {
							eng, err := newEngine()
							if err != nil {
								return c20Result{err: "engine: " + err.Error()}
							}
							fc, err := loadfile.NewFileCacheUsingContext(v.dirArg(), map[string]string{"workflow": "workflow.yaml"})
							if err == nil {
								err = fc.LoadContext()
							}
							if err != nil {
								return c20Result{err: "load: " + err.Error()}
							}
							if v.cwdRun != "" {
								_ = os.Chdir(v.cwdRun)
							}
							if entry == "RunWorkflow" {
								env.W.Phase = "run"
								id, data, isErr, err := eng.RunWorkflow(ctx, input, fc, "workflow")
								if err != nil {
									return c20Result{err: err.Error()}
								}
								return c20Result{id: id, data: canonStr(data), isErr: isErr}
							}
							wf, err := eng.Parse(fc, "workflow")
							if err != nil {
								return c20Result{err: "parse: " + err.Error()}
							}
							env.W.Phase = "run"
							id, data, isErr, err := wf.Run(ctx, input)
							if err != nil {
								return c20Result{err: err.Error()}
							}
							return c20Result{id: id, data: canonStr(data), isErr: isErr}
						})
						vrt.MapPolicy = nil
						_ = os.Chdir(origWD)
						res.Execs++
						res.Points += int64(gx.Points)
						outcomes[got.String()] = true
						if gx.Outcome().Panic != nil {
							add(tree.name+"/panic/"+firstEngineFrame(gx.Outcome().Panic.Stack), short(gx.Outcome().Panic.Value, 300))
							continue
						}
						same := got.id == direct.id && got.data == direct.data && got.isErr == direct.isErr && (got.err == "") == (direct.err == "")
						if !same {
							add(fmt.Sprintf("%s/entry-point-differs/%s/%s", tree.name, entry, strings.SplitN(v.name, "/reversed", 2)[0]),
								fmt.Sprintf("tree %s (%s, leaf %s) through %s with context %s: %s; preparing and executing the same text directly gives: %s", tree.name, tag, env.RunKindNames[leafKind], entry, v.name, got, direct))
						}
					}
				}
			}
			os.RemoveAll(base)
		}
		res.Outcomes = len(outcomes)
		res.Nontrivial = len(outcomes)
		res.Signatures = res.Execs
		res.Sample = map[string]any{"output_declaration": tag, "trees": []string{"depth0", "depth1", "depth2", "depth3", "diamond", "siblings", "sharedlevels", "sharedlevels2", "dotslash", "dotdot", "dblslash", "nesteddotslash", "subdir"}, "entry_points": []string{"RunWorkflow", "Parse+Run", "Prepare+Execute"}}
		return res
	}}
}

func init() {
	register(&PropCheck{ID: "C20", Level: "exploration",
		Rule:        "workflow trees on disk (nesting depth 0-3, diamond-shared, sibling and level-crossing shared sub-workflows, sub-directory, sub-workflow paths that are not canonical: ./x, d/../x, d//x) x output declarations (ids success / error / failure / a-b_c; inferred, explicit error:true, explicit error:false) x leaf outcome (each declared output chosen) x context directory absolute / relative x working directory in {context, parent, unrelated} (also changed between building the file cache and running) x reversed file-map iteration, through RunWorkflow and Parse+Run, compared with Prepare+Execute on the same text; error flag checked against the declaration; a case is non-trivial per distinct result",
		Assumptions: []string{"the arcaflow binary's exit code mapping is not exercised (package main; its registry cannot be replaced without changing the code under test)", "runs use the default schedule of the controlled runtime (programs have a unique meaning)", "scripted deployer registered by reassigning engine.DefaultDeployerRegistry"},
		Budget:      budget(170*time.Second, 20*time.Minute),
		Units: func(tier string) []*Unit {
			var us []*Unit
			us = append(us, c20Unit("", nil, "single-output/inferred"))
			for _, other := range []string{"error", "failure", "a-b_c"} {
				us = append(us, c20Unit(other, nil, other+"/inferred"))
				for _, ex := range [][2]bool{{false, true}, {false, false}, {true, false}, {true, true}} {
					ex := ex
					us = append(us, c20Unit(other, &ex, fmt.Sprintf("%s/explicit-success-%v-other-%v", other, ex[0], ex[1])))
				}
			}
			return us
		}})
}
