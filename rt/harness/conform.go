package main

import (
	"context"
	"fmt"
	"io"
	"os"
	"reflect"
	"time"

	"go.flow.arcalot.io/engine/internal/verif/env"
	"go.flow.arcalot.io/engine/internal/verif/vrt"
	ratp "go.flow.arcalot.io/pluginsdk/atp"
	sdkplugin "go.flow.arcalot.io/pluginsdk/plugin"
	"go.flow.arcalot.io/pluginsdk/schema"
)

type pipeChannel struct {
	r *io.PipeReader
	w *io.PipeWriter
}

func (p pipeChannel) Read(b []byte) (int, error)  { return p.r.Read(b) }
func (p pipeChannel) Write(b []byte) (int, error) { return p.w.Write(b) }
func (p pipeChannel) Close() error                { p.r.Close(); return p.w.Close() }

type conformObs struct {
	Schema   string
	OutputID string
	Data     string // %#v: includes dynamic types (uint64 vs int64, map[any]any)
	IsErr    bool
	CloseErr bool
}

// conformCase runs one script/input against the real ATP client+server and against the fake client.
func conformCase(kind env.RunKind, stepID string, input any) (real, fake conformObs, err error) {
	sc := &env.StepScript{Run: kind}
	// real stack
	{
		_, plug := env.NewStandalonePlugin("k", sc)
		stdinSub, stdinWriter := io.Pipe()
		stdoutReader, stdoutSub := io.Pipe()
		ctx, cancel := context.WithCancel(context.Background())
		done := make(chan struct{})
		go func() {
			ratp.RunATPServer(ctx, stdinSub, stdoutSub, plug)
			close(done)
		}()
		cl := ratp.NewClientWithLogger(pipeChannel{stdoutReader, stdinWriter}, nil)
		s, e := cl.ReadSchema()
		if e != nil {
			cancel()
			return real, fake, fmt.Errorf("real ReadSchema: %w", e)
		}
		ser, _ := s.SelfSerialize()
		real.Schema = canonStr(ser)
		sig := make(chan schema.Input, 1)
		res := cl.Execute(schema.Input{RunID: "r1", ID: stepID, InputData: input}, sig, nil)
		close(sig)
		real.OutputID, real.Data, real.IsErr = res.OutputID, fmt.Sprintf("%#v", res.OutputData), res.Error != nil
		real.CloseErr = cl.Close() != nil
		cancel()
		stdinWriter.Close()
		stdoutReader.Close()
		select {
		case <-done:
		case <-time.After(5 * time.Second):
		}
	}
	// fake (inside a controlled execution, as it is used by the checks)
	var fakeErr error
	vrt.Run(vrt.Config{}, nil, func() {
		conn, _ := env.NewStandalonePlugin("k", sc)
		cl := env.NewClient(conn)
		s, e := cl.ReadSchema()
		if e != nil {
			fakeErr = fmt.Errorf("fake ReadSchema: %w", e)
			return
		}
		ser, _ := s.SelfSerialize()
		fake.Schema = canonStr(ser)
		sig := make(chan schema.Input, 1)
		res := cl.Execute(schema.Input{RunID: "r1", ID: stepID, InputData: input}, sig, nil)
		close(sig)
		fake.OutputID, fake.Data, fake.IsErr = res.OutputID, fmt.Sprintf("%#v", res.OutputData), res.Error != nil
		fake.CloseErr = cl.Close() != nil
	})
	return real, fake, fakeErr
}

// blockObs: in which phase of the protocol "start, wait, send the cancel signal, wait, break the
// connection, wait" the execution returned, and with what.
type blockObs struct {
	Phase    int // 1 before the cancel signal, 2 after it, 3 after the connection was broken, 0 never
	OutputID string
	IsErr    bool
}

// conformBlocking replays a step that does not return by itself through the same protocol on the
// in-process client (virtual time) and on the real ATP client/server (real time). The real side waits
// generously (10 s) in the phase where the model answers and briefly (80 ms) in the phases before it,
// so that machine load can delay but not reorder what is observed.
func conformBlocking(sc env.StepScript, stepID string, sendCancel bool) (real, fake blockObs, err error) {
	input := map[string]any{"v": 5}
	cancelSig := schema.Input{RunID: "r1", ID: sdkplugin.CancellationSignalSchema.ID(), InputData: map[any]any{}}
	// fake, under the controlled scheduler
	var fakeErr error
	vrt.Run(vrt.Config{}, nil, func() {
		sc := sc
		conn, _ := env.NewStandalonePlugin("k", &sc)
		cl := env.NewClient(conn)
		if _, e := cl.ReadSchema(); e != nil {
			fakeErr = fmt.Errorf("fake ReadSchema: %w", e)
			return
		}
		sig := make(chan schema.Input, 1)
		got := false
		var res ratp.ExecutionResult
		vrt.Go("harness/conform.exec", func() {
			res = cl.Execute(schema.Input{RunID: "r1", ID: stepID, InputData: input}, sig, nil)
			got = true
		})
		phase := 0
		vrt.Sleep("harness/conform", 100*time.Millisecond)
		if got {
			phase = 1
		}
		if phase == 0 && sendCancel {
			vrt.PreSend("harness/conform.sig", sig)
			sig <- cancelSig
			vrt.Sleep("harness/conform", 300*time.Millisecond)
			if got {
				phase = 2
			}
		}
		if phase == 0 {
			_ = conn.Close()
			vrt.Sleep("harness/conform", 3000*time.Millisecond)
			if got {
				phase = 3
			}
		}
		fake = blockObs{Phase: phase}
		if got {
			fake.OutputID, fake.IsErr = res.OutputID, res.Error != nil
		}
		if !got {
			_ = conn.Close()
		}
	})
	if fakeErr != nil {
		return real, fake, fakeErr
	}
	// real stack
	sc2 := sc
	conn, plug := env.NewStandalonePlugin("k", &sc2)
	stdinSub, stdinWriter := io.Pipe()
	stdoutReader, stdoutSub := io.Pipe()
	ctx, cancel := context.WithCancel(context.Background())
	done := make(chan struct{})
	go func() {
		ratp.RunATPServer(ctx, stdinSub, stdoutSub, plug) //nolint:errcheck
		close(done)
	}()
	cl := ratp.NewClientWithLogger(pipeChannel{stdoutReader, stdinWriter}, nil)
	if _, e := cl.ReadSchema(); e != nil {
		cancel()
		return real, fake, fmt.Errorf("real ReadSchema: %w", e)
	}
	sig := make(chan schema.Input, 1)
	resCh := make(chan ratp.ExecutionResult, 1)
	go func() { resCh <- cl.Execute(schema.Input{RunID: "r1", ID: stepID, InputData: input}, sig, nil) }()
	waitFor := func(phase int) (ratp.ExecutionResult, bool) {
		d := 80 * time.Millisecond
		if phase == fake.Phase {
			d = 10 * time.Second
		}
		select {
		case r := <-resCh:
			return r, true
		case <-time.After(d):
			return ratp.ExecutionResult{}, false
		}
	}
	r, ok := waitFor(1)
	if ok {
		real.Phase = 1
	}
	if !ok && sendCancel {
		sig <- cancelSig
		if r, ok = waitFor(2); ok {
			real.Phase = 2
		}
	}
	if !ok {
		// the deployer kills the plugin: the pipes break (first, so that no late answer can get through:
		// the model's connection break loses it as well) and the plugin's work ends
		stdoutReader.Close()
		stdinWriter.Close()
		_ = conn.Close()
		if r, ok = waitFor(3); ok {
			real.Phase = 3
		}
	}
	if ok {
		real.OutputID, real.IsErr = r.OutputID, r.Error != nil
	}
	_ = conn.Close()
	cancel()
	stdinWriter.Close()
	stdoutReader.Close()
	select {
	case <-done:
	case <-time.After(5 * time.Second):
	}
	return real, fake, nil
}

// conformance replays the scripted plugin through the real ATP client/server and compares
// every observation with the in-process client. It returns the number of traces validated.
func conformance() (int, []string) {
	var problems []string
	n := 0
	inputs := []any{
		map[string]any{"v": 5},
		map[string]any{"v": "7"},
		map[string]any{"v": 5, "s": "x"},
		map[string]any{"v": -3, "l": []any{1, 2}},
		map[string]any{"v": 1, "o": map[string]any{"a": 2, "b": "q"}},
		map[any]any{"v": uint64(9)},
		map[string]any{"v": "notanumber"},
		map[string]any{},
	}
	for _, kind := range []env.RunKind{env.RunSuccess, env.RunErrorOut} {
		for _, stepID := range []string{"run", "nosig", "missing"} {
			for _, in := range inputs {
				r, f, err := conformCase(kind, stepID, in)
				if err != nil {
					problems = append(problems, err.Error())
					continue
				}
				n++
				if !reflect.DeepEqual(r, f) {
					problems = append(problems, fmt.Sprintf("kind=%v step=%s input=%v: real=%+v fake=%+v", kind, stepID, in, r, f))
				}
			}
		}
	}
	// blocking behaviours: never-ending steps with and without regard for the cancel signal, slow
	// steps, slow reaction to the signal, steps without a signal handler
	type bc struct {
		name   string
		sc     env.StepScript
		step   string
		cancel bool
	}
	for _, c := range []bc{
		{"hang-until-cancel", env.StepScript{Run: env.RunHangCancel}, "run", true},
		{"hang-until-cancel slow reaction", env.StepScript{Run: env.RunHangCancel, CancelMS: 40}, "run", true},
		{"hang-ignoring-cancel", env.StepScript{Run: env.RunHangIgnore}, "run", true},
		{"hang, never signalled", env.StepScript{Run: env.RunHangCancel}, "run", false},
		{"hang without signal handler", env.StepScript{Run: env.RunHangCancel}, "nosig", false},
		{"slow success", env.StepScript{RunMS: 30}, "run", true},
		{"slow success cancelled", env.StepScript{RunMS: 4000}, "run", true},
		{"slow error output", env.StepScript{Run: env.RunErrorOut, RunMS: 30}, "nosig", false},
	} {
		r, f, err := conformBlocking(c.sc, c.step, c.cancel)
		if err != nil {
			problems = append(problems, c.name+": "+err.Error())
			continue
		}
		n++
		if os.Getenv("VERIF_CONFORM_VERBOSE") != "" {
			fmt.Printf("  blocking %-34s step=%-5s real=%+v fake=%+v\n", c.name, c.step, r, f)
		}
		if r != f {
			problems = append(problems, fmt.Sprintf("blocking behaviour %q (step %s): real=%+v fake=%+v", c.name, c.step, r, f))
		}
	}
	return n, problems
}
