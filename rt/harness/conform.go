package main

import (
	"context"
	"fmt"
	"io"
	"reflect"
	"time"

	"go.flow.arcalot.io/engine/internal/verif/env"
	"go.flow.arcalot.io/engine/internal/verif/vrt"
	ratp "go.flow.arcalot.io/pluginsdk/atp"
	"go.flow.arcalot.io/pluginsdk/schema"
)

type pipeChannel struct {
	r *io.PipeReader
	w *io.PipeWriter
}

func (p pipeChannel) Read(b []byte) (int, error)  { return p.r.Read(b) }
func (p pipeChannel) Write(b []byte) (int, error) { return p.w.Write(b) }
func (p pipeChannel) Close() error                { p.r.Close(); return p.w.Close() }

type conformObs struct {
	Schema   string
	OutputID string
	Data     string // %#v: includes dynamic types (uint64 vs int64, map[any]any)
	IsErr    bool
	CloseErr bool
}

// conformCase runs one script/input against the real ATP client+server and against the fake client.
func conformCase(kind env.RunKind, stepID string, input any) (real, fake conformObs, err error) {
	sc := &env.StepScript{Run: kind}
	// real stack
	{
		_, plug := env.NewStandalonePlugin("k", sc)
		stdinSub, stdinWriter := io.Pipe()
		stdoutReader, stdoutSub := io.Pipe()
		ctx, cancel := context.WithCancel(context.Background())
		done := make(chan struct{})
		go func() {
			ratp.RunATPServer(ctx, stdinSub, stdoutSub, plug)
			close(done)
		}()
		cl := ratp.NewClientWithLogger(pipeChannel{stdoutReader, stdinWriter}, nil)
		s, e := cl.ReadSchema()
		if e != nil {
			cancel()
			return real, fake, fmt.Errorf("real ReadSchema: %w", e)
		}
		ser, _ := s.SelfSerialize()
		real.Schema = canonStr(ser)
		sig := make(chan schema.Input, 1)
		res := cl.Execute(schema.Input{RunID: "r1", ID: stepID, InputData: input}, sig, nil)
		close(sig)
		real.OutputID, real.Data, real.IsErr = res.OutputID, fmt.Sprintf("%#v", res.OutputData), res.Error != nil
		real.CloseErr = cl.Close() != nil
		cancel()
		stdinWriter.Close()
		stdoutReader.Close()
		select {
		case <-done:
		case <-time.After(5 * time.Second):
		}
	}
	// fake (inside a controlled execution, as it is used by the checks)
	var fakeErr error
	vrt.Run(vrt.Config{}, nil, func() {
		conn, _ := env.NewStandalonePlugin("k", sc)
		cl := env.NewClient(conn)
		s, e := cl.ReadSchema()
		if e != nil {
			fakeErr = fmt.Errorf("fake ReadSchema: %w", e)
			return
		}
		ser, _ := s.SelfSerialize()
		fake.Schema = canonStr(ser)
		sig := make(chan schema.Input, 1)
		res := cl.Execute(schema.Input{RunID: "r1", ID: stepID, InputData: input}, sig, nil)
		close(sig)
		fake.OutputID, fake.Data, fake.IsErr = res.OutputID, fmt.Sprintf("%#v", res.OutputData), res.Error != nil
		fake.CloseErr = cl.Close() != nil
	})
	return real, fake, fakeErr
}

// conformance replays the scripted plugin through the real ATP client/server and compares
// every observation with the in-process client. It returns the number of traces validated.
func conformance() (int, []string) {
	var problems []string
	n := 0
	inputs := []any{
		map[string]any{"v": 5},
		map[string]any{"v": "7"},
		map[string]any{"v": 5, "s": "x"},
		map[string]any{"v": -3, "l": []any{1, 2}},
		map[string]any{"v": 1, "o": map[string]any{"a": 2, "b": "q"}},
		map[any]any{"v": uint64(9)},
		map[string]any{"v": "notanumber"},
		map[string]any{},
	}
	for _, kind := range []env.RunKind{env.RunSuccess, env.RunErrorOut} {
		for _, stepID := range []string{"run", "nosig", "missing"} {
			for _, in := range inputs {
				r, f, err := conformCase(kind, stepID, in)
				if err != nil {
					problems = append(problems, err.Error())
					continue
				}
				n++
				if !reflect.DeepEqual(r, f) {
					problems = append(problems, fmt.Sprintf("kind=%v step=%s input=%v: real=%+v fake=%+v", kind, stepID, in, r, f))
				}
			}
		}
	}
	return n, problems
}
