package main

import (
	"fmt"
	"regexp"
	"sort"
	"strconv"
	"strings"
)

// ---------------------------------------------------------------------------------------
// Program representation owned by the generator. The engine gets its YAML rendering; the
// reference interpreter gets the tree itself.

type Node interface{}

// Lit is a literal (int64, string, bool, nil).
type Lit struct{ V any }

// Ex is an !expr expression. Refs are extracted from the text by refsOf.
type Ex struct{ Text string }

// Obj is a map with ordered fields.
type Obj struct{ Fields []Field }
type Field struct {
	Name string
	Val  Node
}

type List struct{ Items []Node }

// OneOf is a !oneof value.
type OneOf struct {
	Disc string
	Opts []Field
}

// OrDisabled is !ordisabled <expr>.
type OrDisabled struct{ Text string }

// Opt is !wait-optional / !soft-optional <expr>.
type Opt struct {
	Wait bool
	Text string
}

func O(kv ...any) Obj {
	var o Obj
	for i := 0; i+1 < len(kv); i += 2 {
		o.Fields = append(o.Fields, Field{kv[i].(string), kv[i+1]})
	}
	return o
}
func E(text string) Ex { return Ex{text} }
func I(v int64) Lit     { return Lit{v} }
func Str(s string) Lit  { return Lit{s} }

type Step struct {
	ID          string
	Kind        string // "plugin" (default) or "foreach"
	PluginStep  string // "run" or "nosig"
	Input       Node
	WaitFor     Node
	Deploy      Node
	Enabled     Node
	StopIf      Node
	ClosureMS   Node
	Items       Node
	Parallelism Node
	SubFile     string
	Sub         *Program
}

type Output struct {
	ID  string
	Val Node
}

type Program struct {
	Name        string
	InputSchema string // YAML of the input scope ("" = default)
	Steps       []Step
	Outputs     []Output
	OutSchema   string // optional raw outputSchema YAML
}

const defaultInputSchema = `root: RootObject
objects:
  RootObject:
    id: RootObject
    properties:
      n:
        type:
          type_id: integer
      s:
        required: false
        type:
          type_id: string
      flag:
        required: false
        type:
          type_id: bool
      l:
        required: false
        type:
          type_id: list
          items:
            type_id: integer
`

func indent(s string, n int) string {
	pad := strings.Repeat(" ", n)
	lines := strings.Split(strings.TrimRight(s, "\n"), "\n")
	for i, l := range lines {
		if l != "" {
			lines[i] = pad + l
		}
	}
	return strings.Join(lines, "\n") + "\n"
}

func quoteExpr(t string) string { return "'" + strings.ReplaceAll(t, "'", "''") + "'" }

// renderNode renders a node as a YAML value that follows "key:"; ind is the indentation of nested lines.
func renderNode(n Node, ind int) string {
	pad := strings.Repeat(" ", ind)
	switch v := n.(type) {
	case nil:
		return " null\n"
	case Lit:
		switch x := v.V.(type) {
		case nil:
			return " null\n"
		case string:
			return " " + strconv.Quote(x) + "\n"
		case bool:
			return fmt.Sprintf(" %v\n", x)
		case int64:
			return fmt.Sprintf(" %d\n", x)
		case int:
			return fmt.Sprintf(" %d\n", x)
		case float64:
			return " " + strconv.FormatFloat(x, 'g', -1, 64) + "\n"
		default:
			panic(fmt.Sprintf("literal %T", x))
		}
	case Ex:
		return " !expr " + quoteExpr(v.Text) + "\n"
	case OrDisabled:
		return " !ordisabled " + quoteExpr(v.Text) + "\n"
	case Opt:
		if v.Wait {
			return " !wait-optional " + quoteExpr(v.Text) + "\n"
		}
		return " !soft-optional " + quoteExpr(v.Text) + "\n"
	case Obj:
		if len(v.Fields) == 0 {
			return " {}\n"
		}
		var sb strings.Builder
		sb.WriteString("\n")
		for _, f := range v.Fields {
			sb.WriteString(pad + f.Name + ":" + renderNode(f.Val, ind+2))
		}
		return sb.String()
	case List:
		if len(v.Items) == 0 {
			return " []\n"
		}
		var sb strings.Builder
		sb.WriteString("\n")
		for _, it := range v.Items {
			r := renderNode(it, ind+2)
			if strings.HasPrefix(r, "\n") {
				// nested block: "- " followed by the first line's content
				body := strings.TrimPrefix(r, "\n")
				lines := strings.SplitN(body, "\n", 2)
				first := strings.TrimLeft(lines[0], " ")
				sb.WriteString(pad + "- " + first + "\n")
				if len(lines) > 1 {
					sb.WriteString(lines[1])
				}
			} else {
				sb.WriteString(pad + "-" + r)
			}
		}
		return sb.String()
	case OneOf:
		var sb strings.Builder
		sb.WriteString(" !oneof\n")
		sb.WriteString(pad + "discriminator: " + strconv.Quote(v.Disc) + "\n")
		sb.WriteString(pad + "one_of:\n")
		for _, o := range v.Opts {
			sb.WriteString(pad + "  " + o.Name + ":" + renderNode(o.Val, ind+4))
		}
		return sb.String()
	}
	panic(fmt.Sprintf("renderNode: %T", n))
}

func (p *Program) subFiles(files map[string][]byte) {
	for i := range p.Steps {
		s := &p.Steps[i]
		if s.Kind == "foreach" && s.Sub != nil {
			files[s.SubFile] = []byte(s.Sub.YAML())
			s.Sub.subFiles(files)
		}
	}
}

// Files returns the workflow context (sub-workflow files).
func (p *Program) Files() map[string][]byte {
	f := map[string][]byte{}
	p.subFiles(f)
	return f
}

func (p *Program) YAML() string {
	var sb strings.Builder
	sb.WriteString("version: v0.2.0\ninput:\n")
	is := p.InputSchema
	if is == "" {
		is = defaultInputSchema
	}
	sb.WriteString(indent(is, 2))
	sb.WriteString("steps:\n")
	for _, s := range p.Steps {
		sb.WriteString("  " + s.ID + ":\n")
		if s.Kind == "foreach" {
			sb.WriteString("    kind: foreach\n")
			sb.WriteString("    workflow: " + s.SubFile + "\n")
			sb.WriteString("    items:" + renderNode(s.Items, 6))
			if s.Parallelism != nil {
				sb.WriteString("    parallelism:" + renderNode(s.Parallelism, 6))
			}
		} else {
			ps := s.PluginStep
			if ps == "" {
				ps = "run"
			}
			sb.WriteString("    plugin:\n      src: " + s.ID + "\n      deployment_type: builtin\n")
			sb.WriteString("    step: " + ps + "\n")
			sb.WriteString("    input:" + renderNode(s.Input, 6))
			if s.Deploy != nil {
				sb.WriteString("    deploy:" + renderNode(s.Deploy, 6))
			}
			if s.StopIf != nil {
				sb.WriteString("    stop_if:" + renderNode(s.StopIf, 6))
			}
			if s.ClosureMS != nil {
				sb.WriteString("    closure_wait_timeout:" + renderNode(s.ClosureMS, 6))
			}
		}
		if s.WaitFor != nil {
			sb.WriteString("    wait_for:" + renderNode(s.WaitFor, 6))
		}
		if s.Enabled != nil {
			sb.WriteString("    enabled:" + renderNode(s.Enabled, 6))
		}
	}
	sb.WriteString("outputs:\n")
	for _, o := range p.Outputs {
		sb.WriteString("  " + o.ID + ":" + renderNode(o.Val, 4))
	}
	if p.OutSchema != "" {
		sb.WriteString("outputSchema:\n" + indent(p.OutSchema, 2))
	}
	return sb.String()
}

// ---------------------------------------------------------------------------------------
// references inside expression text

type Ref struct {
	Input  bool
	Step   string
	Stage  string
	Output string // may be "" for stage-level references ($.steps.s.outputs)
}

func (r Ref) String() string {
	if r.Input {
		return "input"
	}
	if r.Output == "" {
		return "steps." + r.Step + "." + r.Stage
	}
	return "steps." + r.Step + "." + r.Stage + "." + r.Output
}

var refRe = regexp.MustCompile(`\$\.steps\.([A-Za-z0-9_]+)\.([a-z_]+)(?:\.([a-z_]+))?`)
var inRe = regexp.MustCompile(`\$\.input\b`)

func refsOf(text string) []Ref {
	var out []Ref
	seen := map[string]bool{}
	for _, m := range refRe.FindAllStringSubmatch(text, -1) {
		r := Ref{Step: m[1], Stage: m[2], Output: m[3]}
		if !seen[r.String()] {
			seen[r.String()] = true
			out = append(out, r)
		}
	}
	if inRe.MatchString(text) {
		out = append(out, Ref{Input: true})
	}
	return out
}

// allRefs lists every reference in a node (regardless of tag).
func allRefs(n Node) []Ref {
	var out []Ref
	var walk func(n Node)
	walk = func(n Node) {
		switch v := n.(type) {
		case Ex:
			out = append(out, refsOf(v.Text)...)
		case OrDisabled:
			out = append(out, refsOf(v.Text)...)
		case Opt:
			out = append(out, refsOf(v.Text)...)
		case Obj:
			for _, f := range v.Fields {
				walk(f.Val)
			}
		case List:
			for _, it := range v.Items {
				walk(it)
			}
		case OneOf:
			for _, o := range v.Opts {
				walk(o.Val)
			}
		}
	}
	walk(n)
	return out
}

func sortedKeys[V any](m map[string]V) []string {
	ks := make([]string, 0, len(m))
	for k := range m {
		ks = append(ks, k)
	}
	sort.Strings(ks)
	return ks
}

// refPathRe matches complete dotted reference paths ($.input.x.y, $.steps.s.stage.output.field).
func refPathRe() *regexp.Regexp {
	return regexp.MustCompile(`\$\.(?:input|steps)(?:\.[A-Za-z0-9_]+)*`)
}
