package main

import (
	"fmt"
	"math"
	"reflect"
	"sort"
	"strings"

	"go.flow.arcalot.io/engine/internal/builtinfunctions"
	"go.flow.arcalot.io/engine/internal/verif/env"
	"go.flow.arcalot.io/expressions"
)

// ---------------------------------------------------------------------------------------
// canonical values: nil, bool, int64, float64, string, []any, map[string]any

func canon(v any) any {
	switch x := v.(type) {
	case nil:
		return nil
	case bool, string, int64, float64:
		return x
	case int:
		return int64(x)
	case int8:
		return int64(x)
	case int16:
		return int64(x)
	case int32:
		return int64(x)
	case uint:
		return int64(x)
	case uint8:
		return int64(x)
	case uint16:
		return int64(x)
	case uint32:
		return int64(x)
	case uint64:
		if x > math.MaxInt64 {
			return float64(x)
		}
		return int64(x)
	case float32:
		return float64(x)
	}
	rv := reflect.ValueOf(v)
	switch rv.Kind() {
	case reflect.Map:
		out := map[string]any{}
		for _, k := range rv.MapKeys() {
			out[fmt.Sprint(k.Interface())] = canon(rv.MapIndex(k).Interface())
		}
		return out
	case reflect.Slice, reflect.Array:
		out := make([]any, rv.Len())
		for i := range out {
			out[i] = canon(rv.Index(i).Interface())
		}
		return out
	case reflect.Pointer, reflect.Interface:
		if rv.IsNil() {
			return nil
		}
		return canon(rv.Elem().Interface())
	case reflect.Struct:
		// a Go struct in the data model is not a serialised value; keep it recognisable
		return fmt.Sprintf("<struct %T %+v>", v, v)
	case reflect.Int, reflect.Int64, reflect.Int32, reflect.Int16, reflect.Int8:
		return rv.Int()
	case reflect.Uint, reflect.Uint64, reflect.Uint32, reflect.Uint16, reflect.Uint8:
		return int64(rv.Uint())
	case reflect.Float32, reflect.Float64:
		return rv.Float()
	case reflect.String:
		return rv.String()
	case reflect.Bool:
		return rv.Bool()
	}
	return fmt.Sprintf("<%T %v>", v, v)
}

func canonStr(v any) string {
	var sb strings.Builder
	var w func(v any)
	w = func(v any) {
		switch x := v.(type) {
		case nil:
			sb.WriteString("null")
		case map[string]any:
			sb.WriteString("{")
			for i, k := range sortedKeys(x) {
				if i > 0 {
					sb.WriteString(",")
				}
				sb.WriteString(k + ":")
				w(x[k])
			}
			sb.WriteString("}")
		case []any:
			sb.WriteString("[")
			for i, it := range x {
				if i > 0 {
					sb.WriteString(",")
				}
				w(it)
			}
			sb.WriteString("]")
		case string:
			sb.WriteString(fmt.Sprintf("%q", x))
		default:
			sb.WriteString(fmt.Sprint(x))
		}
	}
	w(canon(v))
	return sb.String()
}

// ---------------------------------------------------------------------------------------
// reference interpreter

type Status int

const (
	Pending Status = iota
	Produced
	Impossible // the engine is told (or can derive) that it will never be produced
	Never      // not produced, but nothing says so until the run ends
	Unknown    // depends on timing
)

func (s Status) String() string {
	return [...]string{"pending", "produced", "impossible", "never", "unknown"}[s]
}

type StepOutcome struct {
	What    string // deployfail, deployhang, disabled, stuck-enable, stuck-start, success, error, crash, mismatch, hang, stopped, loop-success, loop-failed, stuck-deploy
	MayRun  bool   // plugin code may be executed
	MustRun bool   // plugin code is executed in every complete run where the workflow does not end first
	Input   any    // canonical input the plugin must receive if it runs
	Items   []*RefRun
}

type RefRun struct {
	Prog     *Program
	Script   *env.Script
	Input    any
	Store    map[string]any // {"input":..., "steps":{...}}
	St       map[string]Status
	Outcome  map[string]*StepOutcome
	OutSt    map[string]Status
	OutData  map[string]any
	Unique   bool
	MayHang  bool // a step whose start the reference cannot decide is scripted to hang
	Notes    []string
	EvalErrs []string
	// result
	ResultID   string
	ResultData any
	ResultErr  bool
}

var refFunctions = builtinfunctions.GetFunctions()

func key(step, stage, output string) string { return "steps." + step + "." + stage + "." + output }

func (r *RefRun) status(ref Ref) Status {
	if ref.Input {
		return Produced
	}
	if ref.Output != "" {
		if st, ok := r.St[key(ref.Step, ref.Stage, ref.Output)]; ok {
			return st
		}
		// reference to a field below a stage that is itself an output-less path
		return Pending
	}
	// stage-level reference ($.steps.s.outputs): the engine connects it to the stage node, which
	// resolves when the stage finishes with any output
	any, allImp, anyUnknown, anyPending := false, true, false, false
	n := 0
	for k, st := range r.St {
		if strings.HasPrefix(k, "steps."+ref.Step+"."+ref.Stage+".") {
			n++
			switch st {
			case Produced:
				any = true
			case Unknown:
				anyUnknown = true
			case Pending:
				anyPending = true
			}
			if st != Impossible {
				allImp = false
			}
		}
	}
	switch {
	case n == 0:
		return Pending
	case anyPending:
		return Pending
	case any:
		return Produced
	case anyUnknown:
		return Unknown
	case allImp:
		return Impossible
	}
	return Never
}

type need struct {
	st     Status // Produced (=ready), Impossible, Never, Unknown, Pending
	timing bool   // value depends on timing (soft optional present/absent, several ready alternatives)
}

func and(a, b Status) Status {
	// priority: Pending > Impossible > Unknown > Never > Produced
	rank := func(s Status) int {
		switch s {
		case Pending:
			return 4
		case Impossible:
			return 3
		case Unknown:
			return 2
		case Never:
			return 1
		}
		return 0
	}
	if rank(a) >= rank(b) {
		return a
	}
	return b
}

func (r *RefRun) refsStatus(text string) Status {
	st := Produced
	for _, ref := range refsOf(text) {
		st = and(st, r.status(ref))
	}
	return st
}

func disabledPath(text string) string {
	m := refRe.FindStringSubmatch(text)
	if m == nil {
		return ""
	}
	return "$.steps." + m[1] + ".disabled.output"
}

// need computes whether a node can be evaluated.
func (r *RefRun) need(n Node) need {
	switch v := n.(type) {
	case nil, Lit:
		return need{st: Produced}
	case Ex:
		return need{st: r.refsStatus(v.Text)}
	case Obj:
		out := need{st: Produced}
		for _, f := range v.Fields {
			c := r.need(f.Val)
			out.st = and(out.st, c.st)
			out.timing = out.timing || c.timing
		}
		return out
	case List:
		out := need{st: Produced}
		for _, it := range v.Items {
			c := r.need(it)
			out.st = and(out.st, c.st)
			out.timing = out.timing || c.timing
		}
		return out
	case OrDisabled:
		return r.need(OneOf{Disc: "result", Opts: []Field{{"enabled", Ex{v.Text}}, {"disabled", Ex{disabledPath(v.Text)}}}})
	case OneOf:
		ready, pending, unknown, allImp := 0, false, false, true
		timing := false
		for _, o := range v.Opts {
			c := r.need(o.Val)
			switch c.st {
			case Produced:
				ready++
				timing = timing || c.timing
			case Pending:
				pending = true
			case Unknown:
				unknown = true
			}
			if c.st != Impossible {
				allImp = false
			}
		}
		switch {
		case pending:
			return need{st: Pending}
		case ready > 0:
			return need{st: Produced, timing: timing || ready > 1 || unknown}
		case unknown:
			return need{st: Unknown}
		case allImp:
			return need{st: Impossible}
		}
		return need{st: Never}
	case Opt:
		st := r.refsStatus(v.Text)
		if v.Wait {
			switch st {
			case Produced, Impossible:
				return need{st: Produced}
			default:
				return need{st: st}
			}
		}
		// soft: never blocks; present only if the source happened to be there
		switch st {
		case Pending:
			return need{st: Pending}
		case Produced, Unknown:
			return need{st: Produced, timing: true}
		}
		return need{st: Produced}
	}
	panic(fmt.Sprintf("need: %T", n))
}

type absent struct{}

func (r *RefRun) evalExpr(text string) (res any, rerr error) {
	defer func() {
		if p := recover(); p != nil {
			// the expression library itself panics on some arithmetic faults; for the reference this is
			// simply "the expression cannot be evaluated"
			res, rerr = nil, fmt.Errorf("expression %s cannot be evaluated (library panic: %v)", text, p)
		}
	}()
	ex, err := expressions.New(text)
	if err != nil {
		return nil, err
	}
	v, err := ex.Evaluate(r.Store, refFunctions, nil)
	if err != nil {
		return nil, err
	}
	return canon(v), nil
}

// eval evaluates a node whose need() is Produced. presentSoft tells whether soft optionals
// with an available source are included (the engine may do either, depending on timing).
func (r *RefRun) eval(n Node, presentSoft bool) (any, error) {
	switch v := n.(type) {
	case nil:
		return nil, nil
	case Lit:
		return canon(v.V), nil
	case Ex:
		return r.evalExpr(v.Text)
	case Obj:
		out := map[string]any{}
		for _, f := range v.Fields {
			x, err := r.eval(f.Val, presentSoft)
			if err != nil {
				return nil, err
			}
			if _, isAbsent := x.(absent); isAbsent || x == nil {
				continue
			}
			out[f.Name] = x
		}
		return out, nil
	case List:
		out := make([]any, len(v.Items))
		for i, it := range v.Items {
			x, err := r.eval(it, presentSoft)
			if err != nil {
				return nil, err
			}
			out[i] = x
		}
		return out, nil
	case OrDisabled:
		return r.eval(OneOf{Disc: "result", Opts: []Field{{"enabled", Ex{v.Text}}, {"disabled", Ex{disabledPath(v.Text)}}}}, presentSoft)
	case OneOf:
		for _, o := range v.Opts {
			if r.need(o.Val).st == Produced {
				x, err := r.eval(o.Val, presentSoft)
				if err != nil {
					return nil, err
				}
				m, ok := x.(map[string]any)
				if !ok {
					return nil, fmt.Errorf("oneof option %s is not an object", o.Name)
				}
				out := map[string]any{}
				for k, vv := range m {
					out[k] = vv
				}
				out[v.Disc] = o.Name
				return out, nil
			}
		}
		return nil, fmt.Errorf("no oneof alternative available")
	case Opt:
		st := r.refsStatus(v.Text)
		if st == Produced && (v.Wait || presentSoft) {
			return r.evalExpr(v.Text)
		}
		return absent{}, nil
	}
	panic(fmt.Sprintf("eval: %T", n))
}

func (r *RefRun) set(step, stage, output string, st Status, data any) {
	r.St[key(step, stage, output)] = st
	if st == Produced {
		steps := r.Store["steps"].(map[string]any)
		sm, _ := steps[step].(map[string]any)
		if sm == nil {
			sm = map[string]any{}
			steps[step] = sm
		}
		stg, _ := sm[stage].(map[string]any)
		if stg == nil {
			stg = map[string]any{}
			sm[stage] = stg
		}
		stg[output] = data
	}
}

var pluginOutputs = [][2]string{
	{"deploy_failed", "error"}, {"enabling", "resolved"}, {"disabled", "output"}, {"starting", "started"},
	{"outputs", "success"}, {"outputs", "error"}, {"outputs", "cancelled_early"}, {"crashed", "error"}, {"closed", "result"},
}
var foreachOutputs = [][2]string{
	{"enabling", "resolved"}, {"disabled", "output"}, {"outputs", "success"}, {"failed", "error"}, {"closed", "result"},
}

func (r *RefRun) setAll(step string, outs [][2]string, table map[string]Status, def Status) {
	for _, o := range outs {
		k := o[0] + "." + o[1]
		st, ok := table[k]
		if !ok {
			st = def
		}
		if st == Produced || r.St[key(step, o[0], o[1])] == Produced {
			continue // set separately with data
		}
		r.St[key(step, o[0], o[1])] = st
	}
}

func truthy(v any) bool { return v != nil && v != false }

// decide tries to settle one step; it returns false while inputs are still pending.
func (r *RefRun) decide(s *Step) bool {
	if s.Kind == "foreach" {
		return r.decideForeach(s)
	}
	sc := r.Script.For(s.ID)
	oc := &StepOutcome{}
	r.Outcome[s.ID] = oc
	I, N, U := Impossible, Never, Unknown
	_ = U
	// stop condition
	stopped := false
	if s.StopIf != nil {
		sn := r.need(s.StopIf)
		switch sn.st {
		case Pending:
			delete(r.Outcome, s.ID)
			return false
		case Produced:
			v, err := r.eval(s.StopIf, true)
			if err != nil {
				r.EvalErrs = append(r.EvalErrs, fmt.Sprintf("stop_if of %s: %v", s.ID, err))
			} else if truthy(v) {
				stopped = true
			}
		case Unknown:
			r.Unique = false
		}
	}
	inputOnly := func(n Node) bool {
		for _, ref := range allRefs(n) {
			if !ref.Input {
				return false
			}
		}
		return true
	}
	if stopped && inputOnly(s.StopIf) {
		// the stop condition is delivered in the very first round, before any start input can be:
		// the plugin never executes and the step ends closed
		oc.What = "stopped"
		r.setAll(s.ID, pluginOutputs, map[string]Status{
			"outputs.success": I, "outputs.error": I, "outputs.cancelled_early": I, "closed.result": Produced,
			"starting.started": U, "enabling.resolved": U, "disabled.output": U, "deploy_failed.error": U, "crashed.error": N,
		}, N)
		if sc.Deploy == env.DeployOK && (sc.DeployMS == 0 || sc.DeployIgnoreCtx) {
			r.set(s.ID, "closed", "result", Produced, map[string]any{"cancelled": true, "close_requested": false})
		} else {
			// a deployment that fails (or is aborted) may be reported as deploy_failed instead of closed
			r.St[key(s.ID, "closed", "result")] = U
			r.Unique = false
		}
		return true
	}
	if stopped && s.Deploy != nil {
		switch r.need(s.Deploy).st {
		case Pending:
			delete(r.Outcome, s.ID)
			return false
		case Impossible:
			// it waits for a deployment configuration that will never come; the stop condition closes it
			oc.What = "stuck-deploy"
			r.setAll(s.ID, pluginOutputs, map[string]Status{"starting.started": I, "outputs.success": I, "outputs.error": I, "outputs.cancelled_early": I, "crashed.error": I, "deploy_failed.error": I}, N)
			r.set(s.ID, "closed", "result", Produced, map[string]any{"cancelled": true, "close_requested": false})
			return true
		}
	}
	if stopped {
		// the stop condition competes with the step's own progress: which terminal stage it
		// reports and whether the plugin runs depends on timing
		// (consumers of a timing-dependent status make the whole result non-unique, see evalProgram)
		oc.What = "stopped-race"
		oc.MayRun = true
		r.setAll(s.ID, pluginOutputs, nil, U)
		switch sc.Run {
		case env.RunHangIgnore:
			// it is closed before it starts or force-closed while running: no declared output either way
			for _, o := range []string{"success", "error", "cancelled_early"} {
				r.St[key(s.ID, "outputs", o)] = I
			}
		case env.RunHangCancel:
			for _, o := range []string{"success", "error"} {
				r.St[key(s.ID, "outputs", o)] = I
			}
		}
		return true
	}
	// deployment
	dn := r.need(s.Deploy)
	switch dn.st {
	case Pending:
		delete(r.Outcome, s.ID)
		return false
	case Impossible:
		oc.What = "stuck-deploy"
		r.setAll(s.ID, pluginOutputs, map[string]Status{"starting.started": I, "outputs.success": I, "outputs.error": I, "outputs.cancelled_early": I}, N)
		return true
	case Never, Unknown:
		oc.What = "stuck-deploy"
		r.setAll(s.ID, pluginOutputs, nil, dn.st)
		return true
	}
	if sc.Deploy == env.DeployHang {
		oc.What = "deployhang"
		r.setAll(s.ID, pluginOutputs, nil, N)
		return true
	}
	if sc.Deploy == env.DeployFail {
		oc.What = "deployfail"
		r.setAll(s.ID, pluginOutputs, map[string]Status{"crashed.error": N}, I)
		r.set(s.ID, "deploy_failed", "error", Produced, map[string]any{"error": "<message>"})
		return true
	}
	// enabling
	en := r.need(s.Enabled)
	switch en.st {
	case Pending:
		delete(r.Outcome, s.ID)
		return false
	case Impossible:
		oc.What = "stuck-enable"
		r.setAll(s.ID, pluginOutputs, map[string]Status{"deploy_failed.error": N, "crashed.error": N, "closed.result": N}, I)
		return true
	case Never, Unknown:
		oc.What = "stuck-enable"
		r.setAll(s.ID, pluginOutputs, nil, en.st)
		return true
	}
	enabled := true
	if s.Enabled != nil {
		v, err := r.eval(s.Enabled, true)
		if err != nil {
			r.EvalErrs = append(r.EvalErrs, fmt.Sprintf("enabled of %s: %v", s.ID, err))
			oc.What = "evalerror"
			r.setAll(s.ID, pluginOutputs, nil, U)
			return true
		}
		enabled = v == nil || refTruth(v)
	}
	if !enabled {
		oc.What = "disabled"
		r.setAll(s.ID, pluginOutputs, map[string]Status{"deploy_failed.error": N, "crashed.error": N}, I)
		r.set(s.ID, "enabling", "resolved", Produced, map[string]any{"enabled": false})
		r.set(s.ID, "disabled", "output", Produced, map[string]any{"message": "<message>"})
		return true
	}
	// starting: input, wait_for, closure timeout
	startNode := Obj{Fields: []Field{{"input", s.Input}, {"wait_for", s.WaitFor}, {"closure_wait_timeout", s.ClosureMS}}}
	sn := r.need(startNode)
	switch sn.st {
	case Pending:
		delete(r.Outcome, s.ID)
		return false
	case Impossible:
		oc.What = "stuck-start"
		r.setAll(s.ID, pluginOutputs, map[string]Status{"deploy_failed.error": N, "crashed.error": N, "closed.result": N}, I)
		r.set(s.ID, "enabling", "resolved", Produced, map[string]any{"enabled": true})
		return true
	case Never, Unknown:
		oc.What = "stuck-start"
		if sn.st == Unknown && (sc.Run == env.RunHangCancel || sc.Run == env.RunHangIgnore || len(sc.ByValue) > 0) {
			r.MayHang = true
		}
		r.setAll(s.ID, pluginOutputs, map[string]Status{"disabled.output": I}, sn.st)
		r.set(s.ID, "enabling", "resolved", Produced, map[string]any{"enabled": true})
		return true
	}
	if sn.timing {
		r.Unique = false
	}
	in, err := r.eval(s.Input, true)
	if err != nil {
		r.EvalErrs = append(r.EvalErrs, fmt.Sprintf("input of %s: %v", s.ID, err))
		oc.What = "evalerror"
		r.setAll(s.ID, pluginOutputs, nil, U)
		return true
	}
	if stopped {
		// stop condition and start input compete: timing decides whether the plugin runs
		r.Unique = false
		oc.What = "stopped-race"
		oc.MayRun = true
		oc.Input = in
		r.setAll(s.ID, pluginOutputs, map[string]Status{"disabled.output": I, "outputs.success": U, "outputs.error": U}, U)
		r.set(s.ID, "enabling", "resolved", Produced, map[string]any{"enabled": true})
		return true
	}
	oc.MayRun = true
	oc.MustRun = true
	oc.Input = in
	r.set(s.ID, "enabling", "resolved", Produced, map[string]any{"enabled": true})
	inp := toInp(in)
	kind := sc.Run
	if inp != nil {
		if k, ok := sc.ByValue[inp.V]; ok {
			kind = k
		}
	}
	if sc.ReadSchemaFails {
		kind = env.RunSchemaMismatch // the start fails when the schema cannot be read: same life story
	}
	if inp == nil {
		// the input does not fit the plugin schema: the engine must have refused it earlier
		oc.What = "badinput"
		r.setAll(s.ID, pluginOutputs, nil, U)
		return true
	}
	switch kind {
	case env.RunSuccess:
		oc.What = "success"
		r.setAll(s.ID, pluginOutputs, map[string]Status{"deploy_failed.error": N, "crashed.error": N, "closed.result": N}, I)
		r.set(s.ID, "starting", "started", Produced, map[string]any{})
		o := env.SuccessOutput(s.ID, *inp)
		l := make([]any, len(o.L))
		for i, x := range o.L {
			l[i] = x
		}
		r.set(s.ID, "outputs", "success", Produced, map[string]any{"v": o.V, "s": o.S, "l": l})
	case env.RunErrorOut:
		oc.What = "error"
		r.setAll(s.ID, pluginOutputs, map[string]Status{"deploy_failed.error": N, "crashed.error": N, "closed.result": N}, I)
		r.set(s.ID, "starting", "started", Produced, map[string]any{})
		r.set(s.ID, "outputs", "error", Produced, map[string]any{"error": "scripted error of " + s.ID, "v": inp.V})
	case env.RunCrash:
		oc.What = "crash"
		r.setAll(s.ID, pluginOutputs, map[string]Status{"deploy_failed.error": N}, I)
		r.set(s.ID, "starting", "started", Produced, map[string]any{})
		r.set(s.ID, "crashed", "error", Produced, map[string]any{"output": "<message>"})
	case env.RunSchemaMismatch:
		oc.What = "mismatch"
		oc.MayRun = false
		oc.MustRun = false
		r.setAll(s.ID, pluginOutputs, map[string]Status{"deploy_failed.error": N}, I)
		r.set(s.ID, "crashed", "error", Produced, map[string]any{"output": "<message>"})
	case env.RunHangCancel, env.RunHangIgnore:
		oc.What = "hang"
		r.setAll(s.ID, pluginOutputs, map[string]Status{"disabled.output": I}, N)
		r.set(s.ID, "starting", "started", Produced, map[string]any{})
	}
	return true
}

func toInp(v any) *env.Inp {
	m, ok := v.(map[string]any)
	if !ok {
		return nil
	}
	in := &env.Inp{}
	x, ok := m["v"].(int64)
	if !ok {
		return nil
	}
	in.V = x
	if s, ok := m["s"].(string); ok {
		in.S = &s
	}
	if l, ok := m["l"].([]any); ok {
		var out []int64
		for _, it := range l {
			n, ok := it.(int64)
			if !ok {
				return nil
			}
			out = append(out, n)
		}
		in.L = &out
	}
	if o, ok := m["o"].(map[string]any); ok {
		sub := &env.Sub{}
		a, ok := o["a"].(int64)
		if !ok {
			return nil
		}
		sub.A = a
		if b, ok := o["b"].(string); ok {
			sub.B = &b
		}
		in.O = sub
	}
	return in
}

func (r *RefRun) decideForeach(s *Step) bool {
	oc := &StepOutcome{}
	r.Outcome[s.ID] = oc
	I, N := Impossible, Never
	en := r.need(s.Enabled)
	switch en.st {
	case Pending:
		delete(r.Outcome, s.ID)
		return false
	case Impossible:
		oc.What = "stuck-enable"
		r.setAll(s.ID, foreachOutputs, map[string]Status{"failed.error": N, "closed.result": N}, I)
		return true
	case Never, Unknown:
		oc.What = "stuck-enable"
		r.setAll(s.ID, foreachOutputs, nil, en.st)
		return true
	}
	enabled := true
	if s.Enabled != nil {
		v, err := r.eval(s.Enabled, true)
		if err != nil {
			r.EvalErrs = append(r.EvalErrs, fmt.Sprintf("enabled of %s: %v", s.ID, err))
			r.setAll(s.ID, foreachOutputs, nil, Unknown)
			return true
		}
		enabled = v == nil || refTruth(v)
	}
	if !enabled {
		oc.What = "disabled"
		r.setAll(s.ID, foreachOutputs, map[string]Status{"failed.error": N}, I)
		r.set(s.ID, "enabling", "resolved", Produced, map[string]any{"enabled": false})
		r.set(s.ID, "disabled", "output", Produced, map[string]any{"message": "<message>"})
		return true
	}
	execNode := Obj{Fields: []Field{{"items", s.Items}, {"parallelism", s.Parallelism}, {"wait_for", s.WaitFor}}}
	xn := r.need(execNode)
	switch xn.st {
	case Pending:
		delete(r.Outcome, s.ID)
		return false
	case Impossible:
		oc.What = "stuck-start"
		r.setAll(s.ID, foreachOutputs, map[string]Status{"failed.error": N, "closed.result": N, "disabled.output": I}, I)
		r.set(s.ID, "enabling", "resolved", Produced, map[string]any{"enabled": true})
		return true
	case Never, Unknown:
		oc.What = "stuck-start"
		r.setAll(s.ID, foreachOutputs, map[string]Status{"disabled.output": I}, xn.st)
		r.set(s.ID, "enabling", "resolved", Produced, map[string]any{"enabled": true})
		return true
	}
	if xn.timing {
		r.Unique = false
	}
	items, err := r.eval(s.Items, true)
	if err != nil {
		r.EvalErrs = append(r.EvalErrs, fmt.Sprintf("items of %s: %v", s.ID, err))
		r.setAll(s.ID, foreachOutputs, nil, Unknown)
		return true
	}
	list, _ := items.([]any)
	r.set(s.ID, "enabling", "resolved", Produced, map[string]any{"enabled": true})
	oc.MayRun, oc.MustRun = true, true
	oc.Input = items
	okData := make([]any, len(list))
	failData := map[string]any{}
	failMsgs := map[string]any{}
	hang := false
	for i, it := range list {
		sub := evalProgram(s.Sub, r.Script, it)
		oc.Items = append(oc.Items, sub)
		if !sub.Unique {
			r.Unique = false
		}
		switch {
		case sub.ResultErr:
			failMsgs[fmt.Sprint(i)] = "<message>"
		case sub.ResultID == "success":
			okData[i] = sub.ResultData
			failData[fmt.Sprint(i)] = sub.ResultData
		case sub.ResultID == "":
			hang = true
		default:
			// a non-success output of the sub-workflow is a failure of that item
			failMsgs[fmt.Sprint(i)] = "<message>"
		}
	}
	switch {
	case hang:
		oc.What = "hang"
		r.setAll(s.ID, foreachOutputs, map[string]Status{"disabled.output": I}, N)
	case len(failMsgs) == 0:
		oc.What = "loop-success"
		r.setAll(s.ID, foreachOutputs, map[string]Status{"closed.result": N}, I)
		r.set(s.ID, "outputs", "success", Produced, map[string]any{"data": okData})
	default:
		oc.What = "loop-failed"
		r.setAll(s.ID, foreachOutputs, map[string]Status{"closed.result": N}, I)
		r.set(s.ID, "failed", "error", Produced, map[string]any{"data": failData, "errors": failMsgs})
	}
	return true
}

// evalProgram computes the declarative meaning of one run.
func evalProgram(p *Program, script *env.Script, input any) *RefRun {
	r := &RefRun{Prog: p, Script: script, Input: canon(input), St: map[string]Status{}, Outcome: map[string]*StepOutcome{},
		OutSt: map[string]Status{}, OutData: map[string]any{}, Unique: true}
	r.Store = map[string]any{"input": r.Input, "steps": map[string]any{}}
	for i := range p.Steps {
		s := &p.Steps[i]
		outs := pluginOutputs
		if s.Kind == "foreach" {
			outs = foreachOutputs
		}
		for _, o := range outs {
			r.St[key(s.ID, o[0], o[1])] = Pending
		}
	}
	decided := map[string]bool{}
	for progress := true; progress; {
		progress = false
		for i := range p.Steps {
			s := &p.Steps[i]
			if decided[s.ID] {
				continue
			}
			if r.decide(s) {
				decided[s.ID] = true
				progress = true
			}
		}
	}
	for i := range p.Steps {
		if !decided[p.Steps[i].ID] {
			// cyclic or dangling: should have been rejected by preparation
			r.Notes = append(r.Notes, "undecided step "+p.Steps[i].ID)
			r.Unique = false
			for k, st := range r.St {
				if st == Pending && strings.HasPrefix(k, "steps."+p.Steps[i].ID+".") {
					r.St[k] = Unknown
				}
			}
		}
	}
	// outputs
	var ready []string
	unknown := false
	for _, o := range p.Outputs {
		n := r.need(o.Val)
		r.OutSt[o.ID] = n.st
		switch n.st {
		case Produced:
			ready = append(ready, o.ID)
			d, err := r.eval(o.Val, true)
			if err != nil {
				r.EvalErrs = append(r.EvalErrs, fmt.Sprintf("output %s: %v", o.ID, err))
				r.Unique = false
			}
			r.OutData[o.ID] = d
			if n.timing {
				r.Unique = false
			}
		case Unknown, Pending:
			unknown = true
		}
	}
	sort.Strings(ready)
	if unknown || len(r.EvalErrs) > 0 {
		r.Unique = false
	}
	switch {
	case len(ready) == 1:
		r.ResultID = ready[0]
		r.ResultData = r.OutData[ready[0]]
	case len(ready) == 0:
		allNeverHang := false
		for _, o := range p.Outputs {
			if r.OutSt[o.ID] == Never {
				// an output waits on something that never finishes: does the run end? only if nothing hangs
				allNeverHang = true
			}
		}
		_ = allNeverHang
		r.ResultErr = true
		if r.hangs() {
			// some step never finishes and no output is possible yet not impossible: the run ends only
			// when closed from outside
			nev := false
			for _, o := range p.Outputs {
				if r.OutSt[o.ID] == Never || r.OutSt[o.ID] == Unknown {
					nev = true
				}
			}
			if nev {
				r.ResultErr = false
				r.ResultID = "" // blocked until cancelled
			}
		}
	default:
		r.Unique = false
		r.ResultID = ready[0]
		r.ResultData = r.OutData[ready[0]]
	}
	return r
}

// hangs reports whether some step never finishes on its own.
func (r *RefRun) hangs() bool {
	for _, oc := range r.Outcome {
		if oc.What == "hang" || oc.What == "deployhang" {
			return true
		}
	}
	return false
}

func (r *RefRun) Summary() string {
	var parts []string
	for _, id := range sortedKeys(r.Outcome) {
		parts = append(parts, id+"="+r.Outcome[id].What)
	}
	res := "error"
	if !r.ResultErr {
		res = r.ResultID + " " + canonStr(r.ResultData)
		if r.ResultID == "" {
			res = "blocked"
		}
	}
	return fmt.Sprintf("[%s] -> %s unique=%v", strings.Join(parts, " "), res, r.Unique)
}

// refTruth: the boolean a bool-typed field takes (YAML literals are strings the bool schema converts).
func refTruth(v any) bool {
	switch x := v.(type) {
	case bool:
		return x
	case string:
		switch strings.ToLower(x) {
		case "true", "yes", "y", "on", "1", "enable", "enabled":
			return true
		}
	case int64:
		return x == 1
	case int:
		return x == 1
	}
	return false
}
