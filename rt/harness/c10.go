package main

import (
	"fmt"
	"sort"
	"strings"
	"time"

	"go.arcalot.io/dgraph"
	"go.flow.arcalot.io/engine/internal/step"
	"go.flow.arcalot.io/engine/internal/verif/env"
	"go.flow.arcalot.io/engine/internal/verif/vrt"
	"go.flow.arcalot.io/engine/workflow"
)

// ---------------------------------------------------------------------------------------
// C10: the prepared DAG is exactly the graph the text implies; ill-formed texts are rejected.

type xEdge struct {
	from, to string
	kind     string
}

type xGraph struct {
	nodes map[string]bool
	edges map[xEdge]bool
}

func (g *xGraph) node(id string) { g.nodes[id] = true }
func (g *xGraph) edge(from, to string, kind dgraph.DependencyType) {
	// a second connection between the same nodes is ignored by the engine (first one wins)
	for e := range g.edges {
		if e.from == from && e.to == to {
			return
		}
	}
	g.edges[xEdge{from, to, string(kind)}] = true
}

var providerLifecycles map[string]step.Lifecycle[step.LifecycleStage]

func lifecycles() map[string]step.Lifecycle[step.LifecycleStage] {
	if providerLifecycles == nil {
		providerLifecycles = map[string]step.Lifecycle[step.LifecycleStage]{}
		reg, _, err := newRegistry()
		if err != nil {
			panic(err)
		}
		for _, k := range []string{"plugin", "foreach"} {
			p, err := reg.GetByKind(k)
			if err != nil {
				panic(err)
			}
			providerLifecycles[k] = p.Lifecycle()
		}
	}
	return providerLifecycles
}

// stageOutputs are the outputs the scripted plugin / foreach declare per stage.
var stageOutputsPlugin = map[string][]string{
	"deploy_failed": {"error"}, "enabling": {"resolved"}, "disabled": {"output"}, "starting": {"started"},
	"outputs": {"success", "error", "cancelled_early"}, "crashed": {"error"}, "closed": {"result"},
}
var stageOutputsForeach = map[string][]string{
	"enabling": {"resolved"}, "disabled": {"output"}, "outputs": {"success"}, "failed": {"error"}, "closed": {"result"},
}

// refNode is the DAG node a reference connects to.
func refNode(r Ref) string {
	if r.Input {
		return "input"
	}
	return r.String()
}

// expectDeps adds the dependencies of one data tree hanging below node `cur`.
func (g *xGraph) expectDeps(n Node, cur string, path []string) {
	addRefs := func(text, to string) {
		for _, r := range refsOf(text) {
			g.edge(refNode(r), to, dgraph.AndDependency)
		}
	}
	switch v := n.(type) {
	case Ex:
		addRefs(v.Text, cur)
	case Obj:
		for _, f := range v.Fields {
			g.expectDeps(f.Val, cur, append(append([]string{}, path...), f.Name))
		}
	case List:
		for i, it := range v.Items {
			g.expectDeps(it, cur, append(append([]string{}, path...), fmt.Sprint(i)))
		}
	case OrDisabled:
		g.expectDeps(OneOf{Disc: "result", Opts: []Field{{"enabled", Ex{v.Text}}, {"disabled", Ex{disabledPath(v.Text)}}}}, cur, path)
	case OneOf:
		grp := cur + "." + strings.Join(path, ".")
		g.node(grp)
		g.edge(grp, cur, dgraph.AndDependency)
		for _, o := range v.Opts {
			on := grp + "." + o.Name
			g.node(on)
			g.edge(on, grp, dgraph.OrDependency)
			g.expectDeps(o.Val, on, nil)
		}
	case Opt:
		grp := cur + "." + strings.Join(path, ".")
		g.node(grp)
		kind := dgraph.OptionalDependency
		if v.Wait {
			kind = dgraph.CompletionAndDependency
		}
		g.edge(grp, cur, kind)
		addRefs(v.Text, grp)
	}
}

func expectedGraph(p *Program) *xGraph {
	g := &xGraph{nodes: map[string]bool{}, edges: map[xEdge]bool{}}
	g.node("input")
	lcs := lifecycles()
	for i := range p.Steps {
		st := &p.Steps[i]
		kind := "plugin"
		outs := stageOutputsPlugin
		if st.Kind == "foreach" {
			kind, outs = "foreach", stageOutputsForeach
		}
		lc := lcs[kind]
		for _, stage := range lc.Stages {
			sn := "steps." + st.ID + "." + stage.ID
			g.node(sn)
			for _, o := range outs[stage.ID] {
				g.node(sn + "." + o)
				g.edge(sn, sn+"."+o, dgraph.AndDependency)
			}
		}
		for _, stage := range lc.Stages {
			sn := "steps." + st.ID + "." + stage.ID
			for next, dep := range stage.NextStages {
				g.edge(sn, "steps."+st.ID+"."+next, dep)
			}
			for field := range stage.InputFields {
				var data Node
				switch field {
				case "input":
					data = st.Input
				case "wait_for":
					data = st.WaitFor
				case "deploy":
					data = st.Deploy
				case "enabled":
					data = st.Enabled
				case "stop_if":
					data = st.StopIf
				case "closure_wait_timeout":
					data = st.ClosureMS
				case "items":
					data = st.Items
				case "parallelism":
					data = st.Parallelism
				}
				g.expectDeps(data, sn, nil)
			}
		}
	}
	for _, o := range p.Outputs {
		on := "outputs." + o.ID
		g.node(on)
		g.expectDeps(o.Val, on, nil)
	}
	return g
}

func actualGraph(pw workflow.ExecutableWorkflow) *xGraph {
	g := &xGraph{nodes: map[string]bool{}, edges: map[xEdge]bool{}}
	for id, n := range pw.DAG().ListNodes() {
		g.nodes[id] = true
		deps := n.OutstandingDependencies()
		in, _ := n.ListInboundConnections()
		for from := range in {
			g.edges[xEdge{from, id, string(deps[from])}] = true
		}
	}
	return g
}

func diffGraphs(want, got *xGraph) []string {
	var out []string
	for n := range want.nodes {
		if !got.nodes[n] {
			out = append(out, "missing node "+n)
		}
	}
	for n := range got.nodes {
		if !want.nodes[n] {
			out = append(out, "extra node "+n)
		}
	}
	for e := range want.edges {
		if !got.edges[e] {
			out = append(out, fmt.Sprintf("missing dependency %s -> %s (%s)", e.from, e.to, e.kind))
		}
	}
	for e := range got.edges {
		if !want.edges[e] {
			out = append(out, fmt.Sprintf("extra dependency %s -> %s (%s)", e.from, e.to, e.kind))
		}
	}
	sort.Strings(out)
	return out
}

func (g *xGraph) cyclic() bool {
	indeg := map[string]int{}
	adj := map[string][]string{}
	for n := range g.nodes {
		indeg[n] = 0
	}
	for e := range g.edges {
		adj[e.from] = append(adj[e.from], e.to)
		indeg[e.to]++
	}
	var q []string
	for n, d := range indeg {
		if d == 0 {
			q = append(q, n)
		}
	}
	seen := 0
	for len(q) > 0 {
		n := q[0]
		q = q[1:]
		seen++
		for _, m := range adj[n] {
			indeg[m]--
			if indeg[m] == 0 {
				q = append(q, m)
			}
		}
	}
	return seen != len(indeg)
}

// ---------------------------------------------------------------------------------------
// well-formedness by the reference's own (deliberately simple) rules for the generated subset

var pluginOutFields = map[string]map[string]string{
	"outputs.success":         {"v": "int", "s": "string", "l": "list"},
	"outputs.error":           {"error": "string", "v": "int"},
	"outputs.cancelled_early": {},
	"crashed.error":           {"output": "string"},
	"deploy_failed.error":     {"error": "string"},
	"disabled.output":         {"message": "string"},
	"enabling.resolved":       {"enabled": "bool"},
	"starting.started":        {},
	"closed.result":           {"cancelled": "bool", "close_requested": "bool"},
}

var fullRefRe = refRe

// refProblem checks that a reference names an existing step / stage / output / field.
func refProblem(p *Program, text string) string {
	steps := map[string]*Step{}
	for i := range p.Steps {
		steps[p.Steps[i].ID] = &p.Steps[i]
	}
	for _, m := range fullPathRe.FindAllString(text, -1) {
		parts := strings.Split(strings.TrimPrefix(m, "$."), ".")
		if parts[0] == "input" {
			if len(parts) > 1 {
				switch parts[1] {
				case "n", "s", "flag", "l", "v":
				default:
					return "unknown input field " + parts[1]
				}
			}
			continue
		}
		if parts[0] != "steps" || len(parts) < 3 {
			return "malformed reference " + m
		}
		st, ok := steps[parts[1]]
		if !ok {
			return "unknown step " + parts[1]
		}
		outs := stageOutputsPlugin
		if st.Kind == "foreach" {
			outs = stageOutputsForeach
		}
		stageOuts, ok := outs[parts[2]]
		if !ok {
			return "stage " + parts[2] + " has no outputs"
		}
		if len(parts) == 3 {
			continue
		}
		found := false
		for _, o := range stageOuts {
			if o == parts[3] {
				found = true
			}
		}
		if !found {
			return "unknown output " + parts[3]
		}
		if len(parts) >= 5 && st.Kind != "foreach" {
			fields := pluginOutFields[parts[2]+"."+parts[3]]
			if _, ok := fields[parts[4]]; !ok {
				return "unknown field " + parts[4]
			}
		}
	}
	return ""
}

type corruption struct {
	name   string
	prog   *Program
	reject bool // the corrupted program must be rejected
}

func cloneProg(p *Program) *Program {
	q := *p
	q.Steps = append([]Step{}, p.Steps...)
	q.Outputs = append([]Output{}, p.Outputs...)
	return &q
}

// corruptions enumerates single-point corruptions of an accepted program.
func corruptions(p *Program) []corruption {
	var out []corruption
	var ids []string
	for _, s := range p.Steps {
		ids = append(ids, s.ID)
	}
	// 1. references renamed to something that does not exist
	rename := func(text, what string) (string, bool) {
		m := refRe.FindStringSubmatchIndex(text)
		if m == nil {
			return "", false
		}
		step, stage := text[m[2]:m[3]], text[m[4]:m[5]]
		switch what {
		case "step":
			return text[:m[2]] + "nosuchstep" + text[m[3]:], true
		case "stage":
			return text[:m[4]] + "nosuchstage" + text[m[5]:], true
		case "output":
			if m[6] < 0 {
				return "", false
			}
			return text[:m[6]] + "nosuchoutput" + text[m[7]:], true
		case "wrongstage":
			if m[6] < 0 || stage != "outputs" {
				return "", false
			}
			_ = step
			return text[:m[4]] + "crashed" + text[m[5]:], true // crashed has no output "success"
		}
		return "", false
	}
	for si := range p.Steps {
		if ex, ok := stepInputExpr(&p.Steps[si]); ok {
			for _, what := range []string{"step", "stage", "output", "wrongstage"} {
				if t, ok := rename(ex, what); ok {
					q := cloneProg(p)
					q.Steps[si].Input = replaceFirstExpr(q.Steps[si].Input, ex, t)
					out = append(out, corruption{fmt.Sprintf("step %s: reference to missing %s", p.Steps[si].ID, what), q, true})
				}
			}
		}
		// 2. wrong literal type / missing required input
		if p.Steps[si].Kind != "foreach" {
			q := cloneProg(p)
			q.Steps[si].Input = setField(q.Steps[si].Input, "v", Str("not-a-number"))
			out = append(out, corruption{fmt.Sprintf("step %s: string literal for integer field", p.Steps[si].ID), q, true})
			q2 := cloneProg(p)
			q2.Steps[si].Input = setField(q2.Steps[si].Input, "v", nil)
			out = append(out, corruption{fmt.Sprintf("step %s: required input field removed", p.Steps[si].ID), q2, true})
			q3 := cloneProg(p)
			q3.Steps[si].Input = setField(q3.Steps[si].Input, "nosuchfield", I(1))
			out = append(out, corruption{fmt.Sprintf("step %s: undeclared input field", p.Steps[si].ID), q3, true})
			q4 := cloneProg(p)
			q4.Steps[si].Input = setField(q4.Steps[si].Input, "v", E("$.steps."+p.Steps[si].ID+".disabled.output.message"))
			out = append(out, corruption{fmt.Sprintf("step %s: string-typed expression for integer field (and self reference)", p.Steps[si].ID), q4, true})
		}
		// 2b. ill-typed optional stage-level fields
		if p.Steps[si].Kind != "foreach" {
			if p.Steps[si].ClosureMS == nil {
				q := cloneProg(p)
				q.Steps[si].ClosureMS = Str("soon")
				out = append(out, corruption{fmt.Sprintf("step %s: closure_wait_timeout is not a number", p.Steps[si].ID), q, true})
				q2 := cloneProg(p)
				q2.Steps[si].ClosureMS = E("$.input.s")
				out = append(out, corruption{fmt.Sprintf("step %s: string-typed expression for closure_wait_timeout", p.Steps[si].ID), q2, true})
			}
			if p.Steps[si].Enabled == nil {
				q := cloneProg(p)
				q.Steps[si].Enabled = E("$.input.s")
				out = append(out, corruption{fmt.Sprintf("step %s: string-typed expression for enabled", p.Steps[si].ID), q, true})
				q2 := cloneProg(p)
				q2.Steps[si].Enabled = O("a", I(1))
				out = append(out, corruption{fmt.Sprintf("step %s: map literal for enabled", p.Steps[si].ID), q2, true})
			}
			if p.Steps[si].Deploy == nil {
				q := cloneProg(p)
				q.Steps[si].Deploy = I(5)
				out = append(out, corruption{fmt.Sprintf("step %s: integer literal for deploy", p.Steps[si].ID), q, true})
			}
			if p.Steps[si].StopIf == nil && p.Steps[si].PluginStep == "" {
				q := cloneProg(p)
				q.Steps[si].PluginStep = "nosig"
				q.Steps[si].StopIf = E("$.input.flag")
				out = append(out, corruption{fmt.Sprintf("step %s: stop_if on a plugin step without a cancel signal handler", p.Steps[si].ID), q, true})
			}
		} else {
			q := cloneProg(p)
			q.Steps[si].Parallelism = Str("many")
			out = append(out, corruption{fmt.Sprintf("loop %s: parallelism is not a number", p.Steps[si].ID), q, true})
		}
		// 3. back edges: wait_for on a step that (transitively) depends on this one, and on itself
		for sj := range p.Steps {
			if dependsOn(p, p.Steps[sj].ID, p.Steps[si].ID) || si == sj {
				q := cloneProg(p)
				q.Steps[si].WaitFor = E("$.steps." + p.Steps[sj].ID + ".outputs.success")
				if p.Steps[sj].Kind == "foreach" || p.Steps[si].Kind == "foreach" {
					continue
				}
				// whether this closes a cycle is decided on the stage-level graph the text implies
				out = append(out, corruption{fmt.Sprintf("step %s waits for %s which depends on it", p.Steps[si].ID, p.Steps[sj].ID), q, expectedGraph(q).cyclic()})
			}
		}
	}
	for oi := range p.Outputs {
		q := cloneProg(p)
		q.Outputs[oi].Val = O("x", E("$.steps.nosuchstep.outputs.success"))
		out = append(out, corruption{"output " + p.Outputs[oi].ID + ": reference to missing step", q, true})
		if len(ids) > 0 {
			q2 := cloneProg(p)
			q2.Outputs[oi].Val = O("x", E("$.steps."+ids[0]+".outputs.success.nosuchfield"))
			out = append(out, corruption{"output " + p.Outputs[oi].ID + ": reference to missing field", q2, true})
		}
	}
	// 4. benign variations that must still be accepted
	for si := range p.Steps {
		if p.Steps[si].Kind != "foreach" && p.Steps[si].WaitFor == nil {
			for sj := range p.Steps {
				if si != sj && !dependsOn(p, p.Steps[sj].ID, p.Steps[si].ID) {
					q := cloneProg(p)
					what := "starting.started"
					if p.Steps[sj].Kind == "foreach" {
						what = "outputs" // loop steps have no starting stage
					}
					q.Steps[si].WaitFor = E("$.steps." + p.Steps[sj].ID + "." + what)
					out = append(out, corruption{fmt.Sprintf("step %s additionally waits for %s.%s", p.Steps[si].ID, p.Steps[sj].ID, what), q, false})
				}
			}
		}
	}
	return out
}

func stepInputExpr(s *Step) (string, bool) {
	found := ""
	var walk func(n Node)
	walk = func(n Node) {
		switch v := n.(type) {
		case Ex:
			if found == "" && refRe.MatchString(v.Text) {
				found = v.Text
			}
		case Obj:
			for _, f := range v.Fields {
				walk(f.Val)
			}
		case List:
			for _, it := range v.Items {
				walk(it)
			}
		}
	}
	walk(s.Input)
	return found, found != ""
}

func replaceFirstExpr(n Node, old, new string) Node {
	done := false
	var walk func(n Node) Node
	walk = func(n Node) Node {
		switch v := n.(type) {
		case Ex:
			if !done && v.Text == old {
				done = true
				return Ex{new}
			}
		case Obj:
			o := Obj{}
			for _, f := range v.Fields {
				o.Fields = append(o.Fields, Field{f.Name, walk(f.Val)})
			}
			return o
		case List:
			l := List{}
			for _, it := range v.Items {
				l.Items = append(l.Items, walk(it))
			}
			return l
		}
		return n
	}
	return walk(n)
}

func setField(n Node, name string, val Node) Node {
	o, ok := n.(Obj)
	if !ok {
		return n
	}
	out := Obj{}
	set := false
	for _, f := range o.Fields {
		if f.Name == name {
			set = true
			if val != nil {
				out.Fields = append(out.Fields, Field{name, val})
			}
			continue
		}
		out.Fields = append(out.Fields, f)
	}
	if !set && val != nil {
		out.Fields = append(out.Fields, Field{name, val})
	}
	return out
}

// dependsOn: does step a (transitively) reference step b?
func dependsOn(p *Program, a, b string) bool {
	seen := map[string]bool{}
	var rec func(x string) bool
	rec = func(x string) bool {
		if seen[x] {
			return false
		}
		seen[x] = true
		for i := range p.Steps {
			if p.Steps[i].ID != x {
				continue
			}
			for _, n := range []Node{p.Steps[i].Input, p.Steps[i].WaitFor, p.Steps[i].Deploy, p.Steps[i].Enabled, p.Steps[i].StopIf, p.Steps[i].Items} {
				for _, r := range allRefs(n) {
					if r.Step == b || (r.Step != "" && rec(r.Step)) {
						return true
					}
				}
			}
		}
		return false
	}
	return rec(a)
}

// enumPrograms: all programs with up to maxSteps plugin steps whose fields come from a fixed menu of
// references to earlier steps (quotiented by construction: step i may only refer to steps < i).
func enumPrograms(maxSteps int) []*Program {
	var out []*Program
	names := []string{"a", "b", "c"}
	type choice struct {
		input   func(i int, prev []string) []Node
		waitFor func(i int, prev []string) []Node
	}
	inputs := func(i int, prev []string) []Node {
		alts := []Node{O("v", E("$.input.n")), O("v", I(int64(i + 1)), "s", E("$.input.s"))}
		for _, p := range prev {
			alts = append(alts, O("v", E(sv(p))), O("v", I(2), "s", E(ss(p))), O("v", E(sv(p)), "s", Opt{true, "$.steps." + p + ".outputs.error.error"}))
		}
		if len(prev) >= 2 {
			alts = append(alts, O("v", E(sv(prev[0])), "s", E(ss(prev[0])+" + "+ss(prev[1]))))
		}
		return alts
	}
	waits := func(i int, prev []string) []Node {
		alts := []Node{nil}
		for _, p := range prev {
			alts = append(alts, E("$.steps."+p+".outputs"), E("$.steps."+p+".starting.started"))
		}
		if len(prev) >= 2 {
			alts = append(alts, E(ss(prev[0])+" + "+ss(prev[1])), List{[]Node{E("$.steps." + prev[0] + ".outputs.success"), E("$.steps." + prev[1] + ".outputs.success")}})
		}
		return alts
	}
	var rec func(steps []Step)
	rec = func(steps []Step) {
		if len(steps) > 0 {
			last := steps[len(steps)-1].ID
			outAlts := []Node{
				O("r", E(sv(last))),
				O("r", OneOf{Disc: "k", Opts: []Field{{"ok", E("$.steps." + last + ".outputs.success")}, {"bad", E("$.steps." + last + ".outputs.error")}}}, "w", Opt{false, ss(steps[0].ID)}),
			}
			for oi, ov := range outAlts {
				p := &Program{Name: fmt.Sprintf("enum%d-%d", len(out), oi), Steps: append([]Step{}, steps...), Outputs: []Output{{"success", ov}}}
				out = append(out, p)
			}
		}
		if len(steps) == maxSteps {
			return
		}
		i := len(steps)
		var prev []string
		for _, s := range steps {
			prev = append(prev, s.ID)
		}
		for _, in := range inputs(i, prev) {
			for _, w := range waits(i, prev) {
				rec(append(append([]Step{}, steps...), Step{ID: names[i], Input: in, WaitFor: w}))
			}
		}
	}
	rec(nil)
	return out
}

var fullPathRe = refPathRe()

func c10Programs(tier string) []*Program {
	ps := append(append([]*Program{}, catalogue()...), tagPrograms()...)
	ps = append(ps, progLoop(2, 2, subProg(), "loop2"), progLoop(1, 1, subNested(), "loopnested"))
	ps = append(ps, enumPrograms(2)...)
	three := enumPrograms(3)
	if tier == "thorough" {
		ps = append(ps, three...)
	} else {
		for i := 0; i < len(three); i += 9 {
			ps = append(ps, three[i])
		}
	}
	return ps
}

func c10Unit(name string, progs []*Program) *Unit {
	return &Unit{Name: name, Run: func(deadline time.Time) *UnitResult {
		res := &UnitResult{Exhaustive: true, BoundCompleted: 1}
		seen := map[string]bool{}
		add := func(key, detail string) {
			if !seen[key] {
				seen[key] = true
				res.Violations = append(res.Violations, vrt.FoundViolation{Violation: vrt.Violation{Key: key, Detail: detail}})
			}
		}
		env.W = env.NewWorld(&env.Script{})
		env.W.Phase = "prepare"
		accepted := 0
		for _, p := range progs {
			if time.Now().After(deadline) {
				res.Exhaustive = false
				break
			}
			res.Execs++
			class := p.Name
			if strings.HasPrefix(class, "enum") {
				class = "enum"
			}
			pw, err := prepare(p.YAML(), p.Files())
			want := expectedGraph(p)
			if err != nil {
				add(class+"/valid-program-rejected/"+short(errClass(err), 50), fmt.Sprintf("a well-formed program was rejected: %v\n%s", err, p.YAML()))
				continue
			}
			accepted++
			if d := diffGraphs(want, actualGraph(pw)); len(d) > 0 {
				k := d[0]
				add(class+"/graph-differs-from-text/"+strings.SplitN(k, " ", 3)[0]+"-"+strings.SplitN(k, " ", 3)[1], fmt.Sprintf("the prepared dependency graph differs from the references in the text: %s\n%s", strings.Join(d, "; "), p.YAML()))
			}
			for _, c := range corruptions(p) {
				res.Execs++
				_, cerr := prepare(c.prog.YAML(), c.prog.Files())
				if c.reject && cerr == nil {
					add(class+"/ill-formed-program-accepted/"+corruptionClass(c.name), fmt.Sprintf("corruption %q was accepted\n%s", c.name, c.prog.YAML()))
				}
				if !c.reject && cerr != nil {
					add(class+"/valid-variation-rejected/"+corruptionClass(c.name), fmt.Sprintf("variation %q was rejected: %v\n%s", c.name, cerr, c.prog.YAML()))
				}
			}
		}
		res.Outcomes = accepted
		res.Nontrivial = accepted
		res.Signatures = res.Execs
		if len(progs) > 0 {
			g := expectedGraph(progs[0])
			res.Sample = map[string]any{"program": progs[0].YAML(), "expected_nodes": len(g.nodes), "expected_dependencies": len(g.edges)}
		}
		return res
	}}
}

func corruptionClass(name string) string {
	i := strings.Index(name, ":")
	if i >= 0 {
		name = name[i+1:]
	}
	name = strings.TrimSpace(name)
	for _, w := range []string{"waits for", "additionally waits"} {
		if strings.Contains(name, w) {
			return strings.ReplaceAll(w, " ", "-")
		}
	}
	return strings.ReplaceAll(name, " ", "-")
}

func init() {
	register(&PropCheck{ID: "C10", Level: "exploration",
		Rule:        "catalogue and tag programs plus every program of the small-scope enumerator (up to 2 / 3 plugin steps, fields from a fixed menu of references, tags and multi-reference expressions); for each accepted program the node and dependency sets (with dependency kinds) of DAG() are compared with a graph built independently from the program tree, and every single-point corruption (missing step/stage/output/field, wrong stage, wrong literal type, missing / undeclared input, back edge, self reference) must be rejected; a case is non-trivial when the program is accepted and its graph compared",
		Assumptions: []string{"the lifecycle stages and their internal ordering are taken from the providers' own Lifecycle() declaration", "plugin schemas are those of the scripted plugin", "programs are limited to the generator's subset of the workflow language"},
		Budget:      budget(150*time.Second, 20*time.Minute),
		Units: func(tier string) []*Unit {
			ps := c10Programs(tier)
			var us []*Unit
			chunk := 40
			for i := 0; i < len(ps); i += chunk {
				j := i + chunk
				if j > len(ps) {
					j = len(ps)
				}
				us = append(us, c10Unit(fmt.Sprintf("programs[%d:%d]", i, j), ps[i:j]))
			}
			return us
		}})
}
