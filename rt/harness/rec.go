package main

import (
	"sync"

	"go.flow.arcalot.io/engine/internal/step"
	"go.flow.arcalot.io/engine/internal/verif/env"
	"go.flow.arcalot.io/pluginsdk/schema"
)

// recProvider wraps a step provider so that every stage input handed to a step and every
// notification a step sends is written to the ledger.
type recProvider struct{ inner step.Provider }

func (p recProvider) Kind() string                                        { return p.inner.Kind() }
func (p recProvider) Lifecycle() step.Lifecycle[step.LifecycleStage]      { return p.inner.Lifecycle() }
func (p recProvider) ProviderSchema() map[string]*schema.PropertySchema   { return p.inner.ProviderSchema() }
func (p recProvider) RunProperties() map[string]struct{}                  { return p.inner.RunProperties() }
func (p recProvider) LoadSchema(in map[string]any, ctx map[string][]byte) (step.RunnableStep, error) {
	r, err := p.inner.LoadSchema(in, ctx)
	if err != nil {
		return nil, err
	}
	return recRunnable{r, p.inner.Kind()}, nil
}

type recRunnable struct {
	inner step.RunnableStep
	kind  string
}

func (r recRunnable) Lifecycle(in map[string]any) (step.Lifecycle[step.LifecycleStageWithSchema], error) {
	return r.inner.Lifecycle(in)
}
func (r recRunnable) RunSchema() map[string]*schema.PropertySchema { return r.inner.RunSchema() }
func (r recRunnable) Start(in map[string]any, runID string, h step.StageChangeHandler) (step.RunningStep, error) {
	env.Log("step-start", runID, runID, 0, r.kind, nil)
	rs, err := r.inner.Start(in, runID, recHandler{h, runID})
	if err != nil {
		return nil, err
	}
	return recRunning{rs, runID}, nil
}

type recRunning struct {
	inner step.RunningStep
	id    string
}

func (r recRunning) ProvideStageInput(stage string, input map[string]any) error {
	env.Log("stage-input", r.id, r.id, 0, stage, input)
	err := r.inner.ProvideStageInput(stage, input)
	if err != nil {
		env.Log("stage-input-refused", r.id, r.id, 0, stage, err.Error())
	}
	return err
}
func (r recRunning) CurrentStage() string        { return r.inner.CurrentStage() }
func (r recRunning) State() step.RunningStepState { return r.inner.State() }
func (r recRunning) Close() error {
	env.Log("step-close", r.id, r.id, 0, nil, nil)
	err := r.inner.Close()
	env.Log("step-closed", r.id, r.id, 0, nil, nil)
	return err
}
func (r recRunning) ForceClose() error {
	env.Log("step-forceclose", r.id, r.id, 0, nil, nil)
	err := r.inner.ForceClose()
	env.Log("step-closed", r.id, r.id, 0, nil, nil)
	return err
}

type recHandler struct {
	inner step.StageChangeHandler
	id    string
}

type notif struct {
	Prev     string
	OutputID string
	Output   any
	Stage    string
}

func deref[T any](p *T) (v T, ok bool) {
	if p == nil {
		return v, false
	}
	return *p, true
}

func (h recHandler) OnStageChange(s step.RunningStep, prev *string, outID *string, out *any, stage string, avail bool, wg *sync.WaitGroup) {
	n := notif{Stage: stage}
	n.Prev, _ = deref(prev)
	n.OutputID, _ = deref(outID)
	if out != nil {
		n.Output = *out
	}
	env.Log("notify-change", h.id, h.id, 0, n, prev != nil)
	h.inner.OnStageChange(s, prev, outID, out, stage, avail, wg)
	env.Log("notify-change-done", h.id, h.id, 0, n, nil)
}

func (h recHandler) OnStepComplete(s step.RunningStep, prev string, outID *string, out *any, wg *sync.WaitGroup) {
	n := notif{Prev: prev}
	n.OutputID, _ = deref(outID)
	if out != nil {
		n.Output = *out
	}
	env.Log("notify-complete", h.id, h.id, 0, n, nil)
	h.inner.OnStepComplete(s, prev, outID, out, wg)
	env.Log("notify-complete-done", h.id, h.id, 0, n, nil)
}

func (h recHandler) OnStepStageFailure(s step.RunningStep, stage string, wg *sync.WaitGroup, err error) {
	env.Log("notify-failure", h.id, h.id, 0, stage, nil)
	h.inner.OnStepStageFailure(s, stage, wg, err)
	env.Log("notify-failure-done", h.id, h.id, 0, stage, nil)
}
