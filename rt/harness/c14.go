package main

import (
	"context"
	"fmt"
	"strings"
	"sync"
	"time"

	"go.flow.arcalot.io/engine/internal/verif/env"
	"go.flow.arcalot.io/engine/internal/verif/vrt"
	"go.flow.arcalot.io/engine/workflow"
)

// ---------------------------------------------------------------------------------------
// C14: re-running and overlapping runs of one prepared workflow.

type c14Variant struct {
	name   string
	input  map[string]any
	script *env.Script
	cancel int64 // -1 none, otherwise cancel at that virtual time
}

type c14Result struct {
	out    string // outcome string
	ledger string
}

func c14Prepare(p *Program) (workflow.ExecutableWorkflow, error) {
	saved := env.W
	env.W = env.NewWorld(&env.Script{})
	env.W.Phase = "prepare"
	defer func() { env.W = saved }()
	return prepare(p.YAML(), p.Files())
}

func ledgerCanon(w *env.World) string {
	var sb strings.Builder
	for _, e := range w.Ledger {
		if e.Kind == "execute-returned" || e.Kind == "cancel" {
			continue
		}
		fmt.Fprintf(&sb, "%s|%s|%s|%d|%s|%s;", e.Kind, e.Step, e.RunID, e.T, canonStr(dataForLedger(e.Data)), canonStr(dataForLedger(e.Data2)))
	}
	return sb.String()
}

func dataForLedger(v any) any {
	if n, ok := v.(notif); ok {
		return map[string]any{"prev": n.Prev, "out": n.OutputID, "data": canon(n.Output), "stage": n.Stage}
	}
	if s, ok := v.(string); ok && (strings.Contains(s, "inferred_schema") || len(s) > 200) {
		return "<text>"
	}
	return v
}

// c14Run executes one run of pw under the default schedule in its own controlled execution.
func c14Run(pw workflow.ExecutableWorkflow, v *c14Variant) (c14Result, *vrt.Exec) {
	var res c14Result
	x := vrt.Run(vrt.Config{}, nil, func() {
		w := env.NewWorld(v.script)
		env.W = w
		ctx, cancel := vrt.WithCancel("harness/c14", context.Background())
		if v.cancel >= 0 {
			vrt.GoDaemon("harness/c14.cancel", func() {
				vrt.Sleep("harness/c14.cancel", msDur(v.cancel))
				cancel()
			})
		}
		id, data, err := pw.Execute(ctx, v.input)
		o := Obs{Returned: true, ID: id, Data: data, Err: err}
		res.out = outcomeString(&o)
		vrt.Settle("harness/c14.settle")
		cancel()
		res.ledger = ledgerCanon(w)
	})
	return res, x
}

func c14Variants(p *Program) []*c14Variant {
	ok := &env.Script{Steps: map[string]*env.StepScript{}}
	fail := &env.Script{Steps: map[string]*env.StepScript{}}
	slow := &env.Script{Steps: map[string]*env.StepScript{}}
	for i, id := range pluginIDs(p) {
		if i == 0 {
			fail.Steps[id] = &env.StepScript{Run: env.RunCrash}
		}
		slow.Steps[id] = &env.StepScript{RunMS: 30}
	}
	inA := map[string]any{"n": 5, "s": "tagA", "flag": true}
	inB := map[string]any{"n": 9, "s": "tagB", "flag": false}
	return []*c14Variant{
		{"a", inA, ok, -1},
		{"b", inB, ok, -1},
		{"failing", inA, fail, -1},
		{"cancelled", inA, slow, 10},
		{"invalid", map[string]any{"n": "not-a-number"}, ok, -1},
	}
}

func c14Programs() []*Program {
	return []*Program{progChain(2), progDeployExpr(), progEnabled(), progOneOf2(), progOptional(), progSoftOptionalDet(), progForeach(subProg(), 2), progMultiOut2(), progStopInput(), progSumExpr2()}
}

// deterministic soft-optional program: the source is also a hard dependency
func progSoftOptionalDet() *Program {
	return &Program{Name: "softoptdet", Steps: []Step{
		pstep("a", O("v", E("$.input.n"))),
		pstep("b", O("v", E(sv("a")))),
	}, Outputs: []Output{{"success", O("r", E(sv("b")), "w", Opt{false, sv("a")})}}}
}

// history unit: all operation sequences up to a length over one program
func c14HistoryUnit(p *Program, maxLen int) *Unit {
	return &Unit{Name: "history/" + p.Name, Run: func(deadline time.Time) *UnitResult {
		res := &UnitResult{Exhaustive: true, BoundCompleted: maxLen}
		variants := c14Variants(p)
		// isolated baselines: fresh preparation, first run
		base := map[string]c14Result{}
		for _, v := range variants {
			pw, err := c14Prepare(p)
			if err != nil {
				res.HarnessErrors = append(res.HarnessErrors, "prepare "+p.Name+": "+err.Error())
				return res
			}
			r, x := c14Run(pw, v)
			if x.Outcome().Deadlock || x.Outcome().Panic != nil {
				continue // other properties' business
			}
			base[v.name] = r
			// determinism of the baseline itself
			pw2, _ := c14Prepare(p)
			r2, _ := c14Run(pw2, v)
			if r2 != r {
				res.HarnessErrors = append(res.HarnessErrors, fmt.Sprintf("baseline of %s/%s is not deterministic:\n%s\n%s", p.Name, v.name, r.out, r2.out))
				return res
			}
		}
		// operations: P0 P1 (prepare instance i) and R<i><variant>
		type op struct {
			prep bool
			inst int
			v    *c14Variant
		}
		var alphabet []op
		for i := 0; i < 2; i++ {
			alphabet = append(alphabet, op{prep: true, inst: i})
			for _, v := range variants {
				alphabet = append(alphabet, op{inst: i, v: v})
			}
		}
		outcomes := map[string]bool{}
		seenViol := map[string]bool{}
		var rec func(hist []op)
		runHist := func(hist []op, shared bool) {
			var inst [2]workflow.ExecutableWorkflow
			var names []string
			prepareOne := func() (workflow.ExecutableWorkflow, error) { return c14Prepare(p) }
			if shared {
				// both instances are prepared from one parsed workflow object by one executor
				names = append(names, "parse-once")
				sp, err := sharedPreparer(p.YAML(), p.Files())
				if err != nil {
					res.HarnessErrors = append(res.HarnessErrors, err.Error())
					return
				}
				prepareOne = func() (workflow.ExecutableWorkflow, error) {
					saved := env.W
					env.W = env.NewWorld(&env.Script{})
					env.W.Phase = "prepare"
					defer func() { env.W = saved }()
					return sp()
				}
			}
			for _, o := range hist {
				if o.prep {
					pw, err := prepareOne()
					if err != nil {
						res.HarnessErrors = append(res.HarnessErrors, err.Error())
						return
					}
					inst[o.inst] = pw
					names = append(names, fmt.Sprintf("prepare%d", o.inst))
					continue
				}
				names = append(names, fmt.Sprintf("run%d(%s)", o.inst, o.v.name))
				r, x := c14Run(inst[o.inst], o.v)
				res.Execs++
				res.Points += int64(x.Points)
				b, ok := base[o.v.name]
				if !ok {
					continue
				}
				outcomes[r.out] = true
				if r != b {
					what := "result"
					detail := fmt.Sprintf("got %s, isolated first run gives %s", r.out, b.out)
					if r.out == b.out {
						what = "ledger"
						detail = fmt.Sprintf("same result %s but the environment saw different actions:\n  history run:  %s\n  isolated run: %s", r.out, short(r.ledger, 1500), short(b.ledger, 1500))
					}
					k := p.Name + "/history-changes-" + what + "/" + o.v.name
					if !seenViol[k] {
						seenViol[k] = true
						res.Violations = append(res.Violations, vrt.FoundViolation{Violation: vrt.Violation{Key: k,
							Detail: fmt.Sprintf("after the history [%s] the last run differs from an isolated first run: %s", strings.Join(names, ", "), detail)}})
					}
				}
			}
		}
		rec = func(hist []op) {
			if time.Now().After(deadline) {
				res.Exhaustive = false
				return
			}
			if len(hist) > 0 && !hist[len(hist)-1].prep {
				runHist(hist, false)
				for _, o := range hist {
					if o.prep && o.inst == 1 {
						runHist(hist, true) // two preparations: also from one parsed workflow object
						break
					}
				}
			}
			if len(hist) == maxLen {
				return
			}
			prepared := [2]bool{}
			for _, o := range hist {
				if o.prep {
					prepared[o.inst] = true
				}
			}
			for _, o := range alphabet {
				if !o.prep && !prepared[o.inst] {
					continue
				}
				if o.prep && prepared[o.inst] {
					continue // re-preparing an instance is the same as using the other one
				}
				if o.inst == 1 && !prepared[0] {
					continue // symmetry
				}
				rec(append(append([]op{}, hist...), o))
			}
		}
		rec(nil)
		res.Outcomes = len(outcomes)
		res.Signatures = res.Execs
		res.Sample = map[string]any{"program": p.Name, "alphabet": "prepare0 prepare1 run<i>(a|b|failing|cancelled|invalid); histories with two preparations also with both prepared from one parsed workflow object", "max_length": maxLen}
		return res
	}}
}

// overlap unit: k concurrent Execute calls on one prepared workflow
type c14Overlap struct {
	name     string
	prog     *Program
	variants []*c14Variant
}

func c14OverlapUnit(ov *c14Overlap, bound int, maxExecs int) *Unit {
	return &Unit{Name: "overlap/" + ov.name, Run: func(deadline time.Time) *UnitResult {
		res := &UnitResult{}
		base := make([]c14Result, len(ov.variants))
		for i, v := range ov.variants {
			pw, err := c14Prepare(ov.prog)
			if err != nil {
				res.HarnessErrors = append(res.HarnessErrors, err.Error())
				return res
			}
			base[i], _ = c14Run(pw, v)
		}
		pw, err := c14Prepare(ov.prog)
		if err != nil {
			res.HarnessErrors = append(res.HarnessErrors, err.Error())
			return res
		}
		results := make([]string, len(ov.variants))
		// all runs share one script: overlapping runs use the "ok" script unless all variants agree
		script := ov.variants[0].script
		body := func() {
			for i := range results {
				results[i] = "no-return"
			}
			env.W = env.NewWorld(script)
			var wg sync.WaitGroup
			for i, v := range ov.variants {
				i, v := i, v
				vrt.WaitGroupAdd("harness/c14o", &wg, 1)
				vrt.Go(fmt.Sprintf("harness/c14o.run%d", i), func() {
					defer vrt.WaitGroupDone("harness/c14o", &wg)
					ctx, cancel := vrt.WithCancel("harness/c14o", context.Background())
					defer cancel()
					if v.cancel >= 0 {
						vrt.GoDaemon("harness/c14o.cancel", func() {
							vrt.Sleep("harness/c14o.cancel", msDur(v.cancel))
							cancel()
						})
					}
					id, data, err := pw.Execute(ctx, v.input)
					o := Obs{Returned: true, ID: id, Data: data, Err: err}
					results[i] = outcomeString(&o)
				})
			}
			vrt.WaitGroupWait("harness/c14o", &wg)
			vrt.Settle("harness/c14o.settle")
		}
		cfg := vrt.ExploreCfg{Bound: capBound(bound), Menu: menuTSME, Deadline: deadline, MaxExecs: maxExecs,
			Exec: vrt.Config{MapMenu: true, Race: raceMode},
			Check: func(x *vrt.Exec) []vrt.Violation {
				var out []vrt.Violation
				if raceMode {
					out = append(out, raceViolations(x)...)
				}
				oc := x.Outcome()
				if oc.Deadlock {
					out = append(out, vrt.Violation{Key: ov.prog.Name + "/overlap-blocks-forever/" + blockedKey(oc.Blocked), Detail: "overlapping runs block forever: " + strings.Join(oc.Blocked, "; ")})
					return out
				}
				if oc.Panic != nil {
					out = append(out, vrt.Violation{Key: ov.prog.Name + "/overlap-panic/" + firstEngineFrame(oc.Panic.Stack), Detail: short(oc.Panic.Value, 300) + "\n" + short(oc.Panic.Stack, 1200)})
					return out
				}
				for i, v := range ov.variants {
					if v.cancel >= 0 {
						continue // a cancelled run may legitimately end either way
					}
					if results[i] != base[i].out {
						out = append(out, vrt.Violation{Key: fmt.Sprintf("%s/overlap-changes-result/%s", ov.prog.Name, v.name),
							Detail: fmt.Sprintf("run %d (%s) of overlap %s returned %s; an isolated first run returns %s", i, v.name, ov.name, results[i], base[i].out)})
					}
				}
				return out
			},
			Outcome: func(x *vrt.Exec) string { return strings.Join(results, " || ") },
		}
		if replaySchedule != nil {
			x := vrt.Replay(cfg.Exec, replaySchedule, body)
			for _, v := range cfg.Check(x) {
				res.Violations = append(res.Violations, vrt.FoundViolation{Violation: v, Schedule: replaySchedule, Trace: vrt.FormatTrace(x.Trace())})
			}
			return res
		}
		st := vrt.Explore(cfg, body)
		res.Execs, res.Points, res.Signatures, res.Outcomes = st.Execs, st.Points, st.Signatures, len(st.Outcomes)
		res.BoundCompleted, res.Exhaustive, res.CapHit = st.BoundCompleted, st.Exhaustive, st.CapHit
		res.Violations, res.HarnessErrors = st.Violations, st.HarnessErrors
		res.Sample = map[string]any{"overlap": ov.name}
		return res
	}}
}

func init() {
	register(&PropCheck{ID: "C14", Level: "model_checking",
		Rule:        "(histories) every operation sequence up to the length bound over {prepare instance 0/1, run instance i with input a / input b / failing script / cancelled / invalid input}: each run's result and full environment ledger must equal those of an isolated first run; (overlaps) 2-3 concurrent Execute calls of one prepared workflow with equal and different inputs under all schedules within the deviation bound",
		Assumptions: commonAssumptions,
		Budget:      budget(170*time.Second, 28*time.Minute),
		Units: func(tier string) []*Unit {
			var us []*Unit
			for _, p := range c14Programs() {
				us = append(us, c14HistoryUnit(p, tierBound(tier, 4, 5)))
			}
			for _, p := range c14Programs() {
				vs := c14Variants(p)
				a, b, cancelled := vs[0], vs[1], vs[3]
				cancelledOK := *cancelled
				cancelledOK.script = a.script
				cancelledOK.cancel = 0
				us = append(us,
					c14OverlapUnit(&c14Overlap{p.Name + "/a+a", p, []*c14Variant{a, a}}, tierBound(tier, 1, 2), tierBound(tier, 4000, 300000)),
					c14OverlapUnit(&c14Overlap{p.Name + "/a+b", p, []*c14Variant{a, b}}, tierBound(tier, 1, 2), tierBound(tier, 4000, 300000)),
					c14OverlapUnit(&c14Overlap{p.Name + "/a+cancelled", p, []*c14Variant{a, &cancelledOK}}, tierBound(tier, 1, 2), tierBound(tier, 4000, 300000)),
				)
				if tier == "thorough" {
					us = append(us, c14OverlapUnit(&c14Overlap{p.Name + "/a+b+a", p, []*c14Variant{a, b, a}}, 1, 300000))
				}
			}
			return us
		}})
}
