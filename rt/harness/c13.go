package main

import (
	"fmt"
	"strings"
	"time"

	"go.flow.arcalot.io/engine/internal/verif/env"
	"go.flow.arcalot.io/engine/internal/verif/vrt"
)

// ---------------------------------------------------------------------------------------
// C13: loop steps. Parent workflow with a foreach over the real prepared sub-workflow.

func progLoop(n int, par int64, sub *Program, name string) *Program {
	var items []Node
	for i := 0; i < n; i++ {
		items = append(items, O("v", I(int64(10+i))))
	}
	st := Step{ID: "loop", Kind: "foreach", SubFile: "sub.yaml", Sub: sub, Items: List{items}}
	if par > 0 {
		st.Parallelism = I(par)
	}
	return &Program{Name: name, Steps: []Step{st}, Outputs: []Output{
		{"success", O("d", E("$.steps.loop.outputs.success.data"))},
		{"failed", O("e", E("$.steps.loop.failed.error"))},
	}}
}

// nested: the sub-workflow itself loops over a fixed list derived from its item
func subNested() *Program {
	inner := &Program{Name: "inner", InputSchema: subInputSchema, Steps: []Step{pstep("z", O("v", E("$.input.v")))},
		Outputs: []Output{{"success", O("r", E(sv("z")))}}}
	return &Program{Name: "subnested", InputSchema: subInputSchema, Steps: []Step{
		{ID: "inl", Kind: "foreach", SubFile: "inner.yaml", Sub: inner, Parallelism: I(2),
			Items: List{[]Node{O("v", E("$.input.v")), O("v", I(77))}}},
	}, Outputs: []Output{{"success", O("rs", E("$.steps.inl.outputs.success.data"))}}}
}

func oracleC13(s *Scenario, x *vrt.Exec, o *Obs) []vrt.Violation {
	var out []vrt.Violation
	if o.W == nil || x.Outcome().Panic != nil {
		return nil
	}
	// whatever a loop step reports - also when it is closed while items are queued or running - accounts
	// for every item: a success output has one non-null entry per item, a failure output names every
	// item either in data or in errors, never in both
	for _, e := range o.W.Ledger {
		if e.Kind != "notify-change" && e.Kind != "notify-complete" {
			continue
		}
		n, _ := asNotif(e.Data)
		var st *Step
		for i := range s.Prog.Steps {
			if s.Prog.Steps[i].ID == e.Step && s.Prog.Steps[i].Kind == "foreach" {
				st = &s.Prog.Steps[i]
			}
		}
		if st == nil || n.OutputID == "" {
			continue
		}
		nItems := -1
		if l, ok := st.Items.(List); ok {
			nItems = len(l.Items)
		}
		m, _ := canon(n.Output).(map[string]any)
		switch n.Prev + "." + n.OutputID {
		case "outputs.success":
			data, _ := m["data"].([]any)
			if nItems >= 0 && len(data) != nItems {
				out = append(out, viol(s, "success-length", st.ID, fmt.Sprintf("loop %s reported success with %d entries for %d items: %s", st.ID, len(data), nItems, canonStr(n.Output))))
			}
			for i, d := range data {
				if d == nil {
					out = append(out, viol(s, "success-with-missing-item", st.ID, fmt.Sprintf("loop %s reported success although item %d has no result: %s", st.ID, i, canonStr(n.Output))))
					break
				}
			}
		case "failed.error":
			data, _ := m["data"].(map[string]any)
			errs, _ := m["errors"].(map[string]any)
			for i := 0; i < nItems; i++ {
				_, inData := data[fmt.Sprint(i)]
				_, inErr := errs[fmt.Sprint(i)]
				if inData == inErr {
					out = append(out, viol(s, "failure-does-not-account-for-item", st.ID, fmt.Sprintf("loop %s reported failure; item %d appears in data=%v and in errors=%v: %s", st.ID, i, inData, inErr, canonStr(n.Output))))
					break
				}
			}
			if len(errs) == 0 {
				out = append(out, viol(s, "failure-without-errors", st.ID, "loop "+st.ID+" reported failure without naming a failing item: "+canonStr(n.Output)))
			}
		}
	}
	// parallelism bound: concurrently executing item plugins per loop
	for i := range s.Prog.Steps {
		st := &s.Prog.Steps[i]
		if st.Kind != "foreach" {
			continue
		}
		par := int64(1)
		if l, ok := st.Parallelism.(Lit); ok {
			par = l.V.(int64)
		}
		for _, id := range pluginIDs(st.Sub) {
			// nested loops multiply
			limit := par
			if st.Sub.Name == "subnested" {
				limit = par * 2
			}
			if hw := int64(o.W.HighWater[id]); hw > limit {
				out = append(out, viol(s, "parallelism-exceeded", st.ID, fmt.Sprintf("loop %s ran %d item plugins at the same time, parallelism is %d", st.ID, hw, limit)))
			}
		}
		// one execution per item with that item (when the run was not cut short)
		if o.Returned && !o.Cancelled && s.Ref.Unique && st.Sub.Name != "subnested" {
			if oc := s.Ref.Outcome[st.ID]; oc != nil && (oc.What == "loop-success" || oc.What == "loop-failed") {
				want := map[string]int{}
				if items, ok := oc.Input.([]any); ok {
					for _, it := range items {
						want[canonStr(it)]++
					}
				}
				got := map[string]int{}
				sub := st.Sub.Steps[0].ID
				for _, e := range o.W.Ledger {
					if e.Kind == "exec-start" && e.Step == sub {
						m, _ := canon(e.Data).(map[string]any)
						got[canonStr(map[string]any{"v": m["v"]})]++
					}
				}
				for k, n := range want {
					ex := s.Script.For(sub)
					if ex.Deploy != env.DeployOK || ex.Run == env.RunSchemaMismatch {
						continue
					}
					if got[k] != n {
						out = append(out, viol(s, "item-execution-count", st.ID, fmt.Sprintf("item %s must be executed %d time(s), was executed %d time(s)", k, n, got[k])))
					}
				}
				for k, n := range got {
					if want[k] == 0 {
						out = append(out, viol(s, "foreign-item-executed", st.ID, fmt.Sprintf("the sub-workflow was executed %d time(s) with %s, which is not an item", n, k)))
					}
				}
			}
		}
	}
	return out
}

func c13Scenarios(tier string) []*Scenario {
	var out []*Scenario
	add := func(p *Program, sc *env.Script, tag string) {
		s := &Scenario{Class: p.Name, Prog: p, Script: sc, Input: map[string]any{"n": 5}}
		s.Name = p.Name + "/" + tag
		s.Ref = evalProgram(p, sc, s.Input)
		out = append(out, s)
	}
	kinds := []env.RunKind{env.RunSuccess, env.RunErrorOut, env.RunCrash}
	kindName := map[env.RunKind]string{env.RunSuccess: "ok", env.RunErrorOut: "err", env.RunCrash: "crash"}
	for n := 0; n <= 3; n++ {
		for _, par := range []int64{0, 1, 2, 3} { // 0: the parallelism field is left out (default 1)
			if n <= 1 && par != 1 {
				continue
			}
			for _, sub := range []*Program{subProg(), subProgErr()} {
				p := progLoop(n, par, sub, fmt.Sprintf("loop-%s-n%d-p%d", sub.Name, n, par))
				// all per-item outcome vectors
				total := 1
				for i := 0; i < n; i++ {
					total *= len(kinds)
				}
				for code := 0; code < total; code++ {
					bv := map[int64]env.RunKind{}
					var tags []string
					c := code
					for i := 0; i < n; i++ {
						k := kinds[c%len(kinds)]
						c /= len(kinds)
						bv[int64(10+i)] = k
						tags = append(tags, kindName[k])
					}
					if tier != "thorough" && n == 3 && code%4 != 0 {
						continue
					}
					sc := &env.Script{Steps: map[string]*env.StepScript{"w": {ByValue: bv}}}
					add(p, sc, "items="+strings.Join(tags, ","))
					// out-of-order completion: first item slowest
					if n >= 2 {
						ms := map[int64]int64{}
						for i := 0; i < n; i++ {
							ms[int64(10+i)] = int64(30 - 10*i)
						}
						sc2 := &env.Script{Steps: map[string]*env.StepScript{"w": {ByValue: bv, ByValueMS: ms}}}
						add(p, sc2, "items="+strings.Join(tags, ",")+"/reverse-durations")
					}
				}
				// deployment failure inside the items
				if n > 0 {
					add(p, &env.Script{Steps: map[string]*env.StepScript{"w": {Deploy: env.DeployFail}}}, "nodeploy")
				}
			}
		}
	}
	add(progLoop(2, 2, subNested(), "loop-nested-n2-p2"), &env.Script{Steps: map[string]*env.StepScript{}}, "ok")
	add(progLoop(2, 1, subNested(), "loop-nested-n2-p1"), &env.Script{Steps: map[string]*env.StepScript{"z": {ByValue: map[int64]env.RunKind{77: env.RunErrorOut}}}}, "inner-err")
	add(progLoop(25, 3, subProg(), "loop-sub-n25-p3"), &env.Script{Steps: map[string]*env.StepScript{}}, "ok")
	add(progLoop(25, 3, subProg(), "loop-sub-n25-p3"), &env.Script{Steps: map[string]*env.StepScript{"w": {ByValue: map[int64]env.RunKind{17: env.RunCrash, 30: env.RunErrorOut}}}}, "two-fail")
	return out
}

func init() {
	register(&PropCheck{ID: "C13", Level: "model_checking",
		Rule:        "parent workflow with a foreach over the real prepared sub-workflow: item counts 0-3 (and 25), parallelism 1-3, all per-item outcome vectors, forward and reversed item durations, nested loop; all schedules within the deviation bound; result vs reference interpreter, per-item execution ledger, concurrent-execution high-water mark, schema validation, and closing at any point",
		Assumptions: commonAssumptions,
		Budget:      budget(170*time.Second, 28*time.Minute),
		Units: func(tier string) []*Unit {
			var us []*Unit
			for _, s := range c13Scenarios(tier) {
				b := tierBound(tier, 1, 2)
				if strings.Contains(s.Name, "n25") {
					b = tierBound(tier, 0, 1)
				}
				us = append(us, scenarioUnit(s, exploreOpts{bound: b, menu: menuTSME, cancelMS: -1}, oracleC13, oracleC03, oracleC08, oracleC01))
				if !strings.Contains(s.Name, "n25") && !strings.Contains(s.Name, "reverse") {
					s2 := *s
					s2.Name = s.Name + "/close-anywhere"
					us = append(us, scenarioUnit(&s2, exploreOpts{bound: 1, menu: menuTSE, cancelMS: -1, cancelAnywhere: true}, oracleC13, oracleC05, oracleC06))
				}
			}
			return us
		}})
}
