package main

import (
	"fmt"
	"os"
	"reflect"
	"regexp"
	"strings"
	"time"

	"go.flow.arcalot.io/engine/internal/verif/env"
	"go.flow.arcalot.io/engine/internal/verif/vrt"
	"go.flow.arcalot.io/engine/workflow"
	"go.flow.arcalot.io/pluginsdk/schema"
)

func msDur(ms int64) time.Duration { return time.Duration(ms) * time.Millisecond }

func viol(s *Scenario, clause, detailKey, detail string) vrt.Violation {
	return vrt.Violation{Key: s.Class + "/" + clause + "/" + detailKey, Detail: fmt.Sprintf("%s\n  scenario: %s\n  reference: %s", detail, s, s.Ref.Summary())}
}

// firstEngineFrame extracts the first engine function of a panic stack (edit-stable: no line numbers).
func firstEngineFrame(stack string) string {
	lines := strings.Split(stack, "\n")
	for i, l := range lines {
		l = strings.TrimSpace(l)
		if strings.HasPrefix(l, repoRoot()+"/") && !strings.Contains(l, "/internal/verif/") && !strings.Contains(l, "/cmd/verifh/") && i > 0 {
			fn := strings.TrimSpace(lines[i-1])
			if j := strings.LastIndex(fn, "("); j > 0 {
				fn = fn[:j]
			}
			fn = strings.TrimPrefix(fn, "go.flow.arcalot.io/engine/")
			return fn
		}
	}
	return "unknown"
}

func repoRoot() string {
	if r := os.Getenv("VERIF_REPO"); r != "" {
		return r
	}
	return "/repo"
}

func blockedKey(blocked []string) string {
	var sites []string
	for _, b := range blocked {
		if i := strings.Index(b, "blocked at "); i >= 0 {
			site := b[i+len("blocked at "):]
			if strings.Contains(site, "harness/") {
				continue
			}
			if j := strings.Index(site, "@"); j >= 0 {
				site = site[:j+1] + vrt.SiteKey(site[j+1:])
			}
			sites = append(sites, site)
		}
	}
	if len(sites) > 3 {
		sites = sites[:3]
	}
	return strings.Join(sites, "+")
}

// ---------------------------------------------------------------------------------------
// C01: termination with exactly one declared output or an error; promptness

func oracleC01(s *Scenario, x *vrt.Exec, o *Obs) []vrt.Violation {
	var out []vrt.Violation
	oc := x.Outcome()
	if oc.StepLimit {
		out = append(out, viol(s, "livelock", "steplimit", "execution exceeded the step limit"))
	}
	if oc.Deadlock {
		out = append(out, viol(s, "never-returns", blockedKey(oc.Blocked), "execution blocks forever: "+strings.Join(oc.Blocked, "; ")))
		return out
	}
	if oc.Panic != nil {
		return out // C07's business
	}
	if !o.Returned {
		return out
	}
	if o.Err == nil {
		declared := false
		for _, od := range s.Prog.Outputs {
			if od.ID == o.ID {
				declared = true
			}
		}
		if !declared {
			out = append(out, viol(s, "undeclared-output", o.ID, "Execute returned an output id that the workflow does not declare: "+o.ID))
		}
	} else if o.ID != "" || o.Data != nil {
		out = append(out, viol(s, "error-and-output", o.ID, "Execute returned both an error and an output"))
	}
	// promptness: when the reference says no output is producible (and nothing keeps the decision
	// open), the run must end within the detector period plus the closure timeouts of running steps
	if s.Ref.Unique && s.Ref.ResultErr && o.Err != nil {
		bound := int64(40)
		for i := range s.Prog.Steps {
			st := &s.Prog.Steps[i]
			oc := s.Ref.Outcome[st.ID]
			if oc != nil && (oc.What == "hang" || oc.What == "deployhang") {
				ms := int64(5000)
				if l, ok := st.ClosureMS.(Lit); ok {
					ms = l.V.(int64)
				}
				bound += ms
			}
		}
		bound += s.maxScriptMS()
		if o.RetT > bound {
			out = append(out, viol(s, "not-prompt", "late", fmt.Sprintf("no output was producible, yet the run returned only at virtual t=%dms (bound %dms)", o.RetT, bound)))
		}
	}
	return out
}

// maxScriptMS is the longest scripted activity chain (sum of all scripted durations).
func (s *Scenario) maxScriptMS() int64 {
	var t int64
	for _, st := range s.Script.Steps {
		t += st.RunMS + st.DeployMS + st.CancelMS
	}
	// the steps of a loop's sub-workflow act once per item (at worst one item after the other)
	items := int64(1)
	for i := range s.Prog.Steps {
		if l, ok := s.Prog.Steps[i].Items.(List); ok && int64(len(l.Items)) > items {
			items = int64(len(l.Items))
		}
	}
	return t * items
}

// ---------------------------------------------------------------------------------------
// C03: the result is the one the declarative meaning prescribes

func oracleC03(s *Scenario, x *vrt.Exec, o *Obs) []vrt.Violation {
	var out []vrt.Violation
	if !o.Returned || x.Outcome().Panic != nil {
		return nil
	}
	ref := s.Ref
	got := canon(o.Data)
	if ref.Unique && !o.Cancelled {
		switch {
		case ref.ResultErr:
			if o.Err == nil {
				out = append(out, viol(s, "output-although-none-producible", o.ID, fmt.Sprintf("no declared output is producible, but the run returned %s %s", o.ID, canonStr(got))))
			}
		case ref.ResultID == "":
		default:
			if o.Err != nil {
				out = append(out, viol(s, "error-although-output-producible", ref.ResultID+"/"+errClass(o.Err), fmt.Sprintf("output %s is producible, but the run returned error %q", ref.ResultID, short(o.Err.Error(), 200))))
			} else if o.ID != ref.ResultID {
				out = append(out, viol(s, "wrong-output-id", ref.ResultID+"/"+o.ID, fmt.Sprintf("expected output %s, got %s", ref.ResultID, o.ID)))
			} else if !matchData(ref.ResultData, got) {
				out = append(out, viol(s, "wrong-output-data", o.ID, fmt.Sprintf("output %s: expected %s, got %s", o.ID, canonStr(ref.ResultData), canonStr(got))))
			}
		}
	}
	// trace oracle (completeness): the run must not give up while, by what the steps had reported
	// when it returned, a declared output was producible
	if o.Err != nil && !o.Cancelled && len(ref.EvalErrs) == 0 {
		if cls := errClass(o.Err); cls == "no-more-steps" || cls == "no-more-outputs" {
			// what the steps report while they are being terminated is a consequence of giving up
			upto := o.RetSeq
			for _, e := range o.W.Ledger {
				if e.Kind == "step-forceclose" || e.Kind == "step-close" {
					upto = e.Seq
					break
				}
			}
			tv := traceUpTo(s, o.W, upto)
			for _, od := range s.Prog.Outputs {
				if n := tv.need(od.Val); n.st == Produced {
					if _, err := tv.evalSet(od.Val); err == nil {
						out = append(out, viol(s, "gave-up-although-output-producible", od.ID+"/"+cls, fmt.Sprintf("the run returned %q although, by what the steps had reported, output %s was producible\n%s", short(o.Err.Error(), 120), od.ID, o.W.LedgerString())))
						break
					}
				}
			}
		}
	}
	// trace oracle: whatever was returned must be justified by what the steps reported
	if o.Err == nil {
		var node Node
		found := false
		for _, od := range s.Prog.Outputs {
			if od.ID == o.ID {
				node, found = od.Val, true
			}
		}
		if found {
			tv := traceUpTo(s, o.W, o.RetSeq)
			n := tv.need(node)
			if n.st != Produced {
				out = append(out, viol(s, "output-without-dependencies", o.ID, fmt.Sprintf("output %s was returned although its required dependencies were not all produced (status %s)\n%s", o.ID, n.st, o.W.LedgerString())))
			} else if set, err := tv.evalSet(node); err != nil {
				out = append(out, viol(s, "output-not-evaluable", o.ID, fmt.Sprintf("output %s returned, but its expressions do not evaluate over the produced values: %v", o.ID, err)))
			} else if !inSet(set, got) {
				var alts []string
				for _, a := range set {
					alts = append(alts, canonStr(a))
				}
				out = append(out, viol(s, "output-data-differs-from-produced", o.ID, fmt.Sprintf("output %s: got %s, but evaluating its expressions over the produced step outputs gives %s", o.ID, canonStr(got), strings.Join(alts, " | "))))
			}
		}
	}
	return out
}

// ---------------------------------------------------------------------------------------
// C05: nothing left running or deployed when Execute returns

func oracleC05(s *Scenario, x *vrt.Exec, o *Obs) []vrt.Violation {
	var out []vrt.Violation
	if !o.Returned || x.Outcome().Panic != nil {
		return nil
	}
	open := map[int]string{}
	for _, e := range o.W.Ledger {
		if e.Seq >= o.RetSeq {
			break
		}
		switch e.Kind {
		case "deploy-ok":
			open[e.Conn] = e.Step
		case "conn-close":
			delete(open, e.Conn)
		}
	}
	for _, step := range open {
		out = append(out, viol(s, "deployment-not-closed", step, fmt.Sprintf("plugin %s was deployed but its connection was not closed when Execute returned\n%s", step, o.W.LedgerString())))
	}
	if len(o.Live) > 0 {
		out = append(out, viol(s, "goroutine-alive-after-return", threadSites(o.Live), "goroutines started for the run are still alive after Execute returned: "+strings.Join(o.Live, "; ")))
	}
	for _, e := range o.W.Ledger {
		if e.Seq > o.RetSeq && (strings.HasPrefix(e.Kind, "notify-") || e.Kind == "deploy-ok" || e.Kind == "exec-start") {
			out = append(out, viol(s, "activity-after-return", e.Kind+"/"+e.Step, fmt.Sprintf("%s happened after Execute returned", e)))
			break
		}
	}
	return out
}

func threadSites(live []string) string {
	var sites []string
	for _, l := range live {
		if i := strings.Index(l, "("); i >= 0 {
			if j := strings.Index(l[i:], ")"); j > 0 {
				sites = append(sites, vrt.SiteKey(l[i+1:i+j]))
			}
		}
	}
	if len(sites) > 3 {
		sites = sites[:3]
	}
	return strings.Join(sites, "+")
}

// ---------------------------------------------------------------------------------------
// C07: no panic; evaluation failures surface as errors

func oracleC07(s *Scenario, x *vrt.Exec, o *Obs) []vrt.Violation {
	var out []vrt.Violation
	if p := x.Outcome().Panic; p != nil {
		frame := firstEngineFrame(p.Stack)
		out = append(out, viol(s, "panic", frame, fmt.Sprintf("panic on goroutine %s: %s\n%s", p.Name, short(p.Value, 300), short(p.Stack, 1500))))
		return out
	}
	for _, m := range x.Outcome().Misuse {
		out = append(out, viol(s, "fatal", short(m, 60), "fatal runtime misuse: "+m))
	}
	if o.Returned && len(s.Ref.EvalErrs) > 0 && o.Err == nil && !o.Cancelled {
		out = append(out, viol(s, "evaluation-failure-not-reported", o.ID, fmt.Sprintf("an expression cannot be evaluated (%s) but the run returned output %s", s.Ref.EvalErrs[0], o.ID)))
	}
	return out
}

// ---------------------------------------------------------------------------------------
// C02: stage inputs arrive only after their references were produced, with exactly those values

func (s *Scenario) step(id string) *Step {
	for i := range s.Prog.Steps {
		if s.Prog.Steps[i].ID == id {
			return &s.Prog.Steps[i]
		}
	}
	return nil
}

// stageNode is the program text that feeds one stage of a step.
func stageNode(st *Step, stage string) (Node, bool) {
	switch stage {
	case "starting":
		return Obj{Fields: []Field{{"input", st.Input}, {"wait_for", st.WaitFor}, {"closure_wait_timeout", st.ClosureMS}}}, true
	case "deploy":
		return Obj{Fields: []Field{{"deploy", st.Deploy}}}, true
	case "enabling":
		return Obj{Fields: []Field{{"enabled", st.Enabled}}}, true
	case "cancelled":
		return Obj{Fields: []Field{{"stop_if", st.StopIf}}}, true
	case "execute":
		return Obj{Fields: []Field{{"items", st.Items}, {"parallelism", st.Parallelism}, {"wait_for", st.WaitFor}}}, true
	}
	return nil, false
}

func setStrings(set []any) string {
	var alts []string
	for _, a := range set {
		alts = append(alts, canonStr(a))
	}
	return strings.Join(alts, " | ")
}

var resolveErrRe = regexp.MustCompile(`cannot resolve expressions for (steps\.[A-Za-z0-9_.]+|outputs\.[A-Za-z0-9_]+)`)

func oracleC02(s *Scenario, x *vrt.Exec, o *Obs) []vrt.Violation {
	var out []vrt.Violation
	if o.W == nil || x.Outcome().Panic != nil {
		return nil
	}
	if o.Returned && o.Err != nil && len(s.Ref.EvalErrs) == 0 && strings.Contains(o.Err.Error(), "not found") {
		if m := resolveErrRe.FindStringSubmatch(o.Err.Error()); m != nil {
			out = append(out, viol(s, "input-evaluated-before-dependencies", m[1], "the engine evaluated the expressions of "+m[1]+" before the values they refer to existed: "+short(o.Err.Error(), 300)))
		}
	}
	for _, e := range o.W.Ledger {
		switch e.Kind {
		case "stage-input":
			st := s.step(e.Step)
			if st == nil {
				continue
			}
			stage, _ := e.Data.(string)
			node, ok := stageNode(st, stage)
			if !ok {
				continue
			}
			tv := traceUpTo(s, o.W, e.Seq)
			n := tv.need(node)
			if n.st != Produced {
				out = append(out, viol(s, "input-before-dependencies", e.Step+"."+stage, fmt.Sprintf("stage %s of step %s received input although the values it refers to were not all produced (status %s)\n%s", stage, e.Step, n.st, o.W.LedgerString())))
				continue
			}
			set, err := tv.evalSet(node)
			if err != nil {
				if len(s.Ref.EvalErrs) == 0 {
					out = append(out, viol(s, "input-not-evaluable", e.Step+"."+stage, fmt.Sprintf("stage %s of step %s received input but its expressions do not evaluate over the produced values: %v", stage, e.Step, err)))
				}
				continue
			}
			if got := canon(e.Data2); !inSet(set, got) {
				out = append(out, viol(s, "wrong-stage-input", e.Step+"."+stage, fmt.Sprintf("stage %s of step %s received %s; evaluating its expressions over what the producers emitted gives %s", stage, e.Step, canonStr(got), setStrings(set))))
			}
		case "exec-start":
			st := s.step(e.Step)
			if st == nil || st.Kind == "foreach" {
				continue
			}
			tv := traceUpTo(s, o.W, e.Seq)
			node := Obj{Fields: []Field{{"input", st.Input}, {"wait_for", st.WaitFor}}}
			if n := tv.need(node); n.st != Produced {
				out = append(out, viol(s, "executed-before-dependencies", e.Step, fmt.Sprintf("plugin of step %s was executed although its input/wait_for references were not all produced (status %s)", e.Step, n.st)))
				continue
			}
			set, err := tv.evalSet(st.Input)
			if err == nil && !inSet(set, canon(e.Data)) {
				out = append(out, viol(s, "wrong-plugin-input", e.Step, fmt.Sprintf("plugin of step %s received %s; its input expressions over the produced values give %s", e.Step, canonStr(e.Data), setStrings(set))))
			}
		case "deploy-start":
			if e.Phase != "run" {
				continue
			}
			st := s.step(e.Step)
			if st == nil || st.Deploy == nil {
				continue
			}
			tv := traceUpTo(s, o.W, e.Seq)
			if n := tv.need(st.Deploy); n.st != Produced {
				out = append(out, viol(s, "deployed-before-dependencies", e.Step, "deployment started before its deploy expression's references were produced"))
				continue
			}
			if set, err := tv.evalSet(st.Deploy); err == nil && len(set) > 0 {
				if m, ok := set[0].(map[string]any); ok {
					want, _ := m["tag"].(string)
					if got, _ := e.Data.(string); got != want {
						out = append(out, viol(s, "wrong-deploy-config", e.Step, fmt.Sprintf("step %s was deployed with tag %q, its deploy expression evaluates to %q", e.Step, got, want)))
					}
				}
			}
		}
	}
	return out
}

// ---------------------------------------------------------------------------------------
// C04: plugin code runs only if prerequisites were produced, the step is enabled, and it was not stopped first

func oracleC04(s *Scenario, x *vrt.Exec, o *Obs) []vrt.Violation {
	var out []vrt.Violation
	if o.W == nil || x.Outcome().Panic != nil {
		return nil
	}
	type seen struct{ starting, stopBeforeStart, enabledFalse, enablingSeen bool }
	st := map[string]*seen{}
	get := func(id string) *seen {
		if st[id] == nil {
			st[id] = &seen{}
		}
		return st[id]
	}
	for _, e := range o.W.Ledger {
		step := s.step(e.Step)
		if step == nil {
			continue
		}
		switch e.Kind {
		case "stage-input":
			stage, _ := e.Data.(string)
			in, _ := canon(e.Data2).(map[string]any)
			switch stage {
			case "starting":
				get(e.Step).starting = true
			case "cancelled":
				if v, ok := in["stop_if"]; ok && truthy(v) && !get(e.Step).starting {
					get(e.Step).stopBeforeStart = true
				}
			case "enabling":
				get(e.Step).enablingSeen = true
				if v, ok := in["enabled"]; ok && v != nil && !refTruth(v) {
					get(e.Step).enabledFalse = true
				}
			}
		case "exec-start":
			if step.Kind == "foreach" {
				continue
			}
			g := get(e.Step)
			if !g.starting {
				out = append(out, viol(s, "executed-without-start-input", e.Step, "plugin executed although the step never received its start input"))
			}
			if g.enabledFalse {
				out = append(out, viol(s, "executed-although-disabled", e.Step, "plugin executed although its enabled condition evaluated to false"))
			}
			if !g.enablingSeen {
				out = append(out, viol(s, "executed-before-enable-decision", e.Step, "plugin executed before the enabled condition was delivered"))
			}
			if g.stopBeforeStart {
				out = append(out, viol(s, "executed-although-stopped-first", e.Step, fmt.Sprintf("the stop condition of step %s was delivered before its start input, yet the plugin was executed\n%s", e.Step, o.W.LedgerString())))
			}
			tv := traceUpTo(s, o.W, e.Seq)
			node := Obj{Fields: []Field{{"input", step.Input}, {"wait_for", step.WaitFor}, {"enabled", step.Enabled}}}
			if n := tv.need(node); n.st != Produced {
				out = append(out, viol(s, "executed-although-prerequisite-missing", e.Step, fmt.Sprintf("plugin of step %s executed although a prerequisite was not produced (status %s)", e.Step, n.st)))
			}
			if s.Ref.Unique {
				if oc := s.Ref.Outcome[e.Step]; oc != nil && !oc.MayRun {
					out = append(out, viol(s, "executed-against-reference", e.Step+"/"+oc.What, fmt.Sprintf("plugin of step %s executed, but by the workflow's meaning it must not (%s)", e.Step, oc.What)))
				}
			}
		case "notify-complete":
			n, _ := asNotif(e.Data)
			if n.Prev == "disabled" && n.OutputID == "output" {
				m, _ := canon(n.Output).(map[string]any)
				if _, ok := m["message"].(string); !ok || len(m) != 1 {
					out = append(out, viol(s, "bad-disabled-output", e.Step, "a disabled step must report {message: string}, got "+canonStr(n.Output)))
				}
			}
		}
	}
	// a disabled step reports its disabled output
	if o.Returned && s.Ref.Unique && !o.Cancelled {
		for id, oc := range s.Ref.Outcome {
			if oc.What == "disabled" {
				tv := traceUpTo(s, o.W, len(o.W.Ledger))
				if tv.St[key(id, "disabled", "output")] != Produced && s.Ref.ResultID != "" && o.Err == nil {
					// only required when the run did not end before the step got that far
					if needsDisabled(s, id) {
						out = append(out, viol(s, "disabled-output-missing", id, "step "+id+" is disabled but never reported its disabled output"))
					}
				}
			}
		}
	}
	return out
}

// needsDisabled reports whether the returned output depends on the disabled output of the step.
func needsDisabled(s *Scenario, id string) bool {
	for _, od := range s.Prog.Outputs {
		if od.ID != s.Ref.ResultID {
			continue
		}
		for _, r := range allRefs(od.Val) {
			if r.Step == id && (r.Stage == "disabled" || r.Stage == "outputs") {
				return true
			}
		}
	}
	return false
}

// ---------------------------------------------------------------------------------------
// C08: every value handed over conforms to the schema declared for it

type stageSchemas struct {
	in   schema.Type
	outs map[string]*schema.StepOutputSchema
}

func (s *Scenario) schemas() map[string]map[string]stageSchemas {
	if s.sch != nil {
		return s.sch
	}
	s.sch = map[string]map[string]stageSchemas{}
	pw, err := s.prepared()
	if err != nil {
		return s.sch
	}
	for _, n := range pw.DAG().ListNodes() {
		it := n.Item()
		if it.Kind != workflow.DAGItemKindStepStage || it.Provider == nil {
			continue
		}
		if _, done := s.sch[it.StepID]; done {
			continue
		}
		st := s.step(it.StepID)
		if st == nil {
			continue
		}
		ps := st.PluginStep
		if ps == "" {
			ps = "run"
		}
		lc, err := it.Provider.Lifecycle(map[string]any{"step": ps})
		if err != nil {
			continue
		}
		m := map[string]stageSchemas{}
		for _, stg := range lc.Stages {
			ss := stageSchemas{outs: stg.Outputs}
			if len(stg.InputSchema) > 0 {
				ss.in = schema.NewObjectSchema("input", stg.InputSchema)
			}
			m[stg.ID] = ss
		}
		s.sch[it.StepID] = m
	}
	return s.sch
}

// plainData reports the first place where a value is not in serialised (generic) form.
func plainData(v any, path string) string {
	switch x := v.(type) {
	case nil, bool, string, int, int8, int16, int32, int64, uint, uint8, uint16, uint32, uint64, float32, float64:
		return ""
	case map[string]any:
		for k, e := range x {
			if p := plainData(e, path+"."+k); p != "" {
				return p
			}
		}
		return ""
	case map[any]any:
		for k, e := range x {
			if p := plainData(e, fmt.Sprintf("%s.%v", path, k)); p != "" {
				return p
			}
		}
		return ""
	case []any:
		for i, e := range x {
			if p := plainData(e, fmt.Sprintf("%s[%d]", path, i)); p != "" {
				return p
			}
		}
		return ""
	}
	rv := reflect.ValueOf(v)
	switch rv.Kind() {
	case reflect.Map:
		for _, k := range rv.MapKeys() {
			if p := plainData(rv.MapIndex(k).Interface(), fmt.Sprintf("%s.%v", path, k.Interface())); p != "" {
				return p
			}
		}
		return ""
	case reflect.Slice:
		for i := 0; i < rv.Len(); i++ {
			if p := plainData(rv.Index(i).Interface(), fmt.Sprintf("%s[%d]", path, i)); p != "" {
				return p
			}
		}
		return ""
	}
	return fmt.Sprintf("%s is a %T", path, v)
}

func oracleC08(s *Scenario, x *vrt.Exec, o *Obs) []vrt.Violation {
	var out []vrt.Violation
	if o.W == nil || x.Outcome().Panic != nil {
		return nil
	}
	sch := s.schemas()
	for _, e := range o.W.Ledger {
		stages, ok := sch[e.Step]
		if !ok {
			continue
		}
		switch e.Kind {
		case "stage-input":
			stage, _ := e.Data.(string)
			ss, ok := stages[stage]
			if !ok || ss.in == nil {
				continue
			}
			if p := plainData(e.Data2, "$"); p != "" {
				out = append(out, viol(s, "stage-input-not-serialised", e.Step+"."+stage, fmt.Sprintf("input handed to stage %s of step %s is not in serialised (generic) form: %s", stage, e.Step, p)))
				continue
			}
			if _, err := ss.in.Unserialize(e.Data2); err != nil {
				out = append(out, viol(s, "stage-input-violates-schema", e.Step+"."+stage, fmt.Sprintf("input %s handed to stage %s of step %s does not conform to the stage's input schema: %v", canonStr(e.Data2), stage, e.Step, err)))
			}
		case "notify-change", "notify-complete":
			n, _ := asNotif(e.Data)
			if n.OutputID == "" {
				continue
			}
			ss, ok := stages[n.Prev]
			if !ok {
				out = append(out, viol(s, "output-of-undeclared-stage", e.Step+"."+n.Prev, "a step reported an output for a stage its lifecycle does not declare"))
				continue
			}
			os, ok := ss.outs[n.OutputID]
			if !ok {
				out = append(out, viol(s, "undeclared-stage-output", e.Step+"."+n.Prev+"."+n.OutputID, "a step reported an output its lifecycle does not declare for that stage"))
				continue
			}
			if p := plainData(n.Output, "$"); p != "" {
				out = append(out, viol(s, "stage-output-not-serialised", e.Step+"."+n.Prev+"."+n.OutputID, fmt.Sprintf("output %s.%s of step %s is made available to expressions in non-serialised form: %s", n.Prev, n.OutputID, e.Step, p)))
				continue
			}
			if _, err := os.Unserialize(n.Output); err != nil {
				out = append(out, viol(s, "stage-output-violates-schema", e.Step+"."+n.Prev+"."+n.OutputID, fmt.Sprintf("output %s.%s = %s of step %s does not conform to its declared schema: %v", n.Prev, n.OutputID, canonStr(n.Output), e.Step, short(err.Error(), 300))))
			}
		}
	}
	if o.Returned {
		if o.Err != nil && strings.Contains(o.Err.Error(), "bug:") {
			out = append(out, viol(s, "internal-bug-error", errBugKey(o.Err), "the run ended with an internal consistency error: "+short(o.Err.Error(), 400)))
		}
		if o.Err == nil {
			pw, _ := s.prepared()
			if os, ok := pw.OutputSchema()[o.ID]; ok {
				if _, err := os.Unserialize(o.Data); err != nil {
					out = append(out, viol(s, "workflow-output-violates-schema", o.ID, fmt.Sprintf("returned output %s = %s does not conform to the workflow's output schema: %v", o.ID, canonStr(o.Data), err)))
				}
			}
		}
	}
	return out
}

var bugObjRe = regexp.MustCompile(`for object ([A-Za-z0-9_]+)|Invalid parameter '([A-Za-z0-9_]+)'`)

func errBugKey(err error) string {
	s := err.Error()
	if m := bugObjRe.FindStringSubmatch(s); m != nil {
		defer func(obj string) {}(m[1])
		return errBugKey0(s) + "/" + m[1] + m[2]
	}
	return errBugKey0(s)
}

func errBugKey0(s string) string {
	if i := strings.Index(s, "bug:"); i >= 0 {
		s = s[i:]
	}
	s = digitsRe.ReplaceAllString(s, "#")
	if j := strings.Index(s, "("); j > 0 {
		s = s[:j]
	}
	return strings.TrimSpace(short(s, 70))
}

// ---------------------------------------------------------------------------------------
// C06: cancellation stops the run in bounded time and reaches every running plugin

func closureMS(st *Step) int64 {
	if l, ok := st.ClosureMS.(Lit); ok {
		if v, ok := l.V.(int64); ok {
			return v
		}
	}
	return 5000
}

func allPluginSteps(p *Program, f func(st *Step)) {
	for i := range p.Steps {
		st := &p.Steps[i]
		if st.Kind == "foreach" {
			allPluginSteps(st.Sub, f)
		} else {
			f(st)
		}
	}
}

func oracleC06(s *Scenario, x *vrt.Exec, o *Obs) []vrt.Violation {
	var out []vrt.Violation
	oc := x.Outcome()
	if oc.Panic != nil {
		return nil
	}
	if oc.Deadlock {
		if o.Cancelled {
			out = append(out, viol(s, "cancelled-run-never-returns", blockedKey(oc.Blocked), "the run was cancelled but never returns: "+strings.Join(oc.Blocked, "; ")))
		}
		return out
	}
	if !o.Returned || !o.Cancelled {
		return nil
	}
	// bound: grace period + closure timeouts of all plugin steps + scripted reaction times + detector period
	bound := int64(5000 + 40)
	closure := map[string]int64{}
	allPluginSteps(s.Prog, func(st *Step) {
		closure[st.ID] = closureMS(st)
	})
	// steps executing at the time of the cancel
	running := map[int]string{} // conn -> step
	for _, e := range o.W.Ledger {
		if e.Seq >= o.CancelSeq {
			break
		}
		switch e.Kind {
		case "exec-start":
			running[e.Conn] = e.Step
		case "exec-end":
			delete(running, e.Conn)
		}
	}
	for _, e := range o.W.Ledger {
		if e.Kind == "exec-start" {
			bound += closure[e.Step] + s.Script.For(e.Step).CancelMS
			if e.Seq >= o.CancelSeq && e.Seq < o.RetSeq {
				running[e.Conn] = e.Step // began to execute in the window after the cancellation: reached like the others
			}
		}
	}
	bound += s.maxScriptMS()
	if d := o.RetT - o.CancelT; d > bound {
		out = append(out, viol(s, "late-return-after-cancel", "late", fmt.Sprintf("the run returned %dms after the cancellation; the bound from the grace period and closure timeouts is %dms", d, bound)))
	}
	for conn, step := range running {
		signalled, closed, ended := false, false, false
		for _, e := range o.W.Ledger {
			if e.Seq >= o.RetSeq || e.Conn != conn {
				continue // signals and closes that reached the plugin before the cancellation count as well
			}
			switch e.Kind {
			case "signal":
				if id, _ := e.Data.(string); id == "cancel" {
					signalled = true
				}
			case "conn-close":
				closed = true
			case "exec-end":
				ended = true
			}
		}
		hasHandler := true
		allPluginSteps(s.Prog, func(st *Step) {
			if st.ID == step && st.PluginStep == "nosig" {
				hasHandler = false
			}
		})
		if !ended {
			out = append(out, viol(s, "plugin-left-running", step, fmt.Sprintf("plugin %s was executing when the run was cancelled and is still executing when Execute returned\n%s", step, o.W.LedgerString())))
			continue
		}
		if hasHandler && !signalled {
			// it may have finished by itself right after the cancellation; only a plugin that had to be
			// stopped must have been asked to stop (a plugin with a handler is signalled, not just killed)
			if k := s.Script.For(step).Run; k == env.RunHangCancel || k == env.RunHangIgnore {
				what := "received neither the cancel signal nor a close"
				if closed {
					what = "was closed without having been sent the cancel signal"
				}
				out = append(out, viol(s, "cancel-signal-not-sent", step, fmt.Sprintf("plugin %s was executing when the run was cancelled but %s\n%s", step, what, o.W.LedgerString())))
			}
		}
		if !hasHandler && !closed {
			if k := s.Script.For(step).Run; k == env.RunHangCancel || k == env.RunHangIgnore {
				out = append(out, viol(s, "plugin-without-handler-not-closed", step, fmt.Sprintf("plugin %s has no cancel handler and was not closed", step)))
			}
		}
	}
	return out
}

// oracleC03cancel: after a cancellation the result is an error or an output justified by produced values.
func oracleC03cancel(s *Scenario, x *vrt.Exec, o *Obs) []vrt.Violation {
	var out []vrt.Violation
	for _, v := range oracleC03(s, x, o) {
		if strings.Contains(v.Key, "/output-without-dependencies/") || strings.Contains(v.Key, "/output-data-differs-from-produced/") ||
			strings.Contains(v.Key, "/output-not-evaluable/") || (!o.Cancelled) {
			out = append(out, v)
		}
	}
	return out
}

// ---------------------------------------------------------------------------------------
// C09: the result does not depend on how long goroutines are delayed

func oracleC09(s *Scenario, x *vrt.Exec, o *Obs) []vrt.Violation {
	var out []vrt.Violation
	if !o.Returned || x.Outcome().Panic != nil || !s.Ref.Unique {
		return nil
	}
	ref := s.Ref
	stallKey := "nostall"
	stallText := ""
	if len(x.StallsTaken) > 0 {
		var ks []string
		for _, st := range x.StallsTaken {
			// a goroutine held when it wakes up at an operation is keyed like one held before that operation
			ks = append(ks, "before-"+strings.TrimPrefix(st.What, "wakeup-")+"@"+vrt.SiteKey(st.Site))
			stallText += fmt.Sprintf(" [goroutine T%d held %dms before %s at %s]", st.Thread, st.MS, st.What, st.Site)
		}
		stallKey = strings.Join(ks, "+")
	}
	if o.Err != nil && errClass(o.Err) == "no-more-steps" && !ref.ResultErr && ref.ResultID != "" {
		out = append(out, viol(s, "false-no-progress-report", stallKey, fmt.Sprintf("the engine reported that no step can make progress although output %s is producible and a goroutine was merely slow:%s (virtual t=%dms)", ref.ResultID, stallText, o.RetT)))
		return out
	}
	switch {
	case ref.ResultErr:
		if o.Err == nil {
			out = append(out, viol(s, "delay-changes-result", "output-instead-of-error/"+o.ID+"/"+stallKey, "under a scheduling delay the run returned "+o.ID+" although no output is producible"))
		}
	case ref.ResultID == "":
	default:
		if o.Err != nil {
			out = append(out, viol(s, "delay-changes-result", "error-instead-of-"+ref.ResultID+"/"+errClass(o.Err)+"/"+stallKey, fmt.Sprintf("under a scheduling delay the run returned error %q instead of output %s:%s", short(o.Err.Error(), 200), ref.ResultID, stallText)))
		} else if o.ID != ref.ResultID || !matchData(ref.ResultData, canon(o.Data)) {
			out = append(out, viol(s, "delay-changes-result", "other-result/"+o.ID+"/"+stallKey, fmt.Sprintf("under a scheduling delay the run returned %s %s instead of %s %s:%s", o.ID, canonStr(o.Data), ref.ResultID, canonStr(ref.ResultData), stallText)))
		}
	}
	return out
}

// ---------------------------------------------------------------------------------------
// C17: data races found by the vector-clock detector on the access probes

var raceMode bool

func raceViolations(x *vrt.Exec) []vrt.Violation {
	var out []vrt.Violation
	for _, rc := range x.Outcome().Races {
		a, b := vrt.SiteKey(rc.SiteA), vrt.SiteKey(rc.SiteB)
		if b < a {
			a, b = b, a
		}
		out = append(out, vrt.Violation{Key: "race/" + rc.Loc + "/" + a + "~" + b,
			Detail: fmt.Sprintf("%s: two goroutines access %s without synchronisation between them: %s and %s", rc.Kind, rc.Loc, rc.SiteA, rc.SiteB)})
	}
	for _, m := range x.Outcome().Misuse {
		if strings.Contains(m, "WaitGroup") {
			out = append(out, vrt.Violation{Key: "race/waitgroup-misuse/" + short(m, 60), Detail: m})
		}
	}
	return out
}

// oracleC01plain: termination without reference knowledge (no deadlock, no livelock, error xor output).
func oracleC01plain(s *Scenario, x *vrt.Exec, o *Obs) []vrt.Violation {
	var out []vrt.Violation
	oc := x.Outcome()
	if oc.StepLimit {
		out = append(out, viol(s, "livelock", "steplimit", "execution exceeded the step limit"))
	}
	if oc.Deadlock {
		out = append(out, viol(s, "never-returns", blockedKey(oc.Blocked), "execution blocks forever: "+strings.Join(oc.Blocked, "; ")))
	}
	if o.Returned && o.Err != nil && (o.ID != "" || o.Data != nil) {
		out = append(out, viol(s, "error-and-output", o.ID, "Execute returned both an error and an output"))
	}
	return out
}

// oracleC08plugin: whatever a misbehaving plugin answered, the returned workflow output conforms to the
// workflow's output schema and no value that violates the step's declared output schema is reported
// as that output.
func oracleC08plugin(s *Scenario, x *vrt.Exec, o *Obs) []vrt.Violation {
	var out []vrt.Violation
	for _, v := range oracleC08(s, x, o) {
		if strings.Contains(v.Key, "/internal-bug-error/") {
			continue // the engine's own description of a plugin that broke its contract
		}
		if strings.Contains(v.Key, "/stage-output-violates-schema/") || strings.Contains(v.Key, "/undeclared-stage-output/") {
			// what the provider passes on from the misbehaving plugin itself is the plugin's fault; what
			// matters is that nothing downstream (stage inputs, the workflow output) is built from it
			parts := strings.Split(v.Key, "/")
			step := strings.SplitN(parts[len(parts)-1], ".", 2)[0]
			if k := s.Script.For(step).Run; k == env.RunBadOutputID || k == env.RunBadOutputData {
				continue
			}
		}
		out = append(out, v)
	}
	return out
}
