package main

import (
	"fmt"
	"strings"
	"time"

	"go.flow.arcalot.io/engine/internal/verif/vrt"
)

func msDur(ms int64) time.Duration { return time.Duration(ms) * time.Millisecond }

func viol(s *Scenario, clause, detailKey, detail string) vrt.Violation {
	return vrt.Violation{Key: s.Class + "/" + clause + "/" + detailKey, Detail: fmt.Sprintf("%s\n  scenario: %s\n  reference: %s", detail, s, s.Ref.Summary())}
}

// firstEngineFrame extracts the first engine source location of a panic stack.
func firstEngineFrame(stack string) string {
	for _, l := range strings.Split(stack, "\n") {
		l = strings.TrimSpace(l)
		if strings.HasPrefix(l, "/repo/") && !strings.Contains(l, "/internal/verif/") && !strings.Contains(l, "/cmd/verifh/") {
			if i := strings.Index(l, " "); i > 0 {
				l = l[:i]
			}
			return strings.TrimPrefix(l, "/repo/")
		}
	}
	return "unknown"
}

func blockedKey(blocked []string) string {
	var sites []string
	for _, b := range blocked {
		if i := strings.Index(b, "blocked at "); i >= 0 {
			site := b[i+len("blocked at "):]
			if strings.Contains(site, "harness/") {
				continue
			}
			sites = append(sites, site)
		}
	}
	if len(sites) > 3 {
		sites = sites[:3]
	}
	return strings.Join(sites, "+")
}

// ---------------------------------------------------------------------------------------
// C01: termination with exactly one declared output or an error; promptness

func oracleC01(s *Scenario, x *vrt.Exec, o *Obs) []vrt.Violation {
	var out []vrt.Violation
	oc := x.Outcome()
	if oc.StepLimit {
		out = append(out, viol(s, "livelock", "steplimit", "execution exceeded the step limit"))
	}
	if oc.Deadlock {
		out = append(out, viol(s, "never-returns", blockedKey(oc.Blocked), "execution blocks forever: "+strings.Join(oc.Blocked, "; ")))
		return out
	}
	if oc.Panic != nil {
		return out // C07's business
	}
	if !o.Returned {
		return out
	}
	if o.Err == nil {
		declared := false
		for _, od := range s.Prog.Outputs {
			if od.ID == o.ID {
				declared = true
			}
		}
		if !declared {
			out = append(out, viol(s, "undeclared-output", o.ID, "Execute returned an output id that the workflow does not declare: "+o.ID))
		}
	} else if o.ID != "" || o.Data != nil {
		out = append(out, viol(s, "error-and-output", o.ID, "Execute returned both an error and an output"))
	}
	// promptness: when the reference says no output is producible (and nothing keeps the decision
	// open), the run must end within the detector period plus the closure timeouts of running steps
	if s.Ref.Unique && s.Ref.ResultErr && o.Err != nil {
		bound := int64(40)
		for i := range s.Prog.Steps {
			st := &s.Prog.Steps[i]
			oc := s.Ref.Outcome[st.ID]
			if oc != nil && (oc.What == "hang" || oc.What == "deployhang") {
				ms := int64(5000)
				if l, ok := st.ClosureMS.(Lit); ok {
					ms = l.V.(int64)
				}
				bound += ms
			}
		}
		bound += s.maxScriptMS()
		if o.RetT > bound {
			out = append(out, viol(s, "not-prompt", "late", fmt.Sprintf("no output was producible, yet the run returned only at virtual t=%dms (bound %dms)", o.RetT, bound)))
		}
	}
	return out
}

// maxScriptMS is the longest scripted activity chain (sum of all scripted durations).
func (s *Scenario) maxScriptMS() int64 {
	var t int64
	for _, st := range s.Script.Steps {
		t += st.RunMS + st.DeployMS + st.CancelMS
	}
	return t
}

// ---------------------------------------------------------------------------------------
// C03: the result is the one the declarative meaning prescribes

func oracleC03(s *Scenario, x *vrt.Exec, o *Obs) []vrt.Violation {
	var out []vrt.Violation
	if !o.Returned || x.Outcome().Panic != nil {
		return nil
	}
	ref := s.Ref
	got := canon(o.Data)
	if ref.Unique && !o.Cancelled {
		switch {
		case ref.ResultErr:
			if o.Err == nil {
				out = append(out, viol(s, "output-although-none-producible", o.ID, fmt.Sprintf("no declared output is producible, but the run returned %s %s", o.ID, canonStr(got))))
			}
		case ref.ResultID == "":
		default:
			if o.Err != nil {
				out = append(out, viol(s, "error-although-output-producible", ref.ResultID+"/"+errClass(o.Err), fmt.Sprintf("output %s is producible, but the run returned error %q", ref.ResultID, short(o.Err.Error(), 200))))
			} else if o.ID != ref.ResultID {
				out = append(out, viol(s, "wrong-output-id", ref.ResultID+"/"+o.ID, fmt.Sprintf("expected output %s, got %s", ref.ResultID, o.ID)))
			} else if !matchData(ref.ResultData, got) {
				out = append(out, viol(s, "wrong-output-data", o.ID, fmt.Sprintf("output %s: expected %s, got %s", o.ID, canonStr(ref.ResultData), canonStr(got))))
			}
		}
	}
	// trace oracle: whatever was returned must be justified by what the steps reported
	if o.Err == nil {
		var node Node
		found := false
		for _, od := range s.Prog.Outputs {
			if od.ID == o.ID {
				node, found = od.Val, true
			}
		}
		if found {
			tv := traceUpTo(s, o.W, o.RetSeq)
			n := tv.need(node)
			if n.st != Produced {
				out = append(out, viol(s, "output-without-dependencies", o.ID, fmt.Sprintf("output %s was returned although its required dependencies were not all produced (status %s)\n%s", o.ID, n.st, o.W.LedgerString())))
			} else if set, err := tv.evalSet(node); err != nil {
				out = append(out, viol(s, "output-not-evaluable", o.ID, fmt.Sprintf("output %s returned, but its expressions do not evaluate over the produced values: %v", o.ID, err)))
			} else if !inSet(set, got) {
				var alts []string
				for _, a := range set {
					alts = append(alts, canonStr(a))
				}
				out = append(out, viol(s, "output-data-differs-from-produced", o.ID, fmt.Sprintf("output %s: got %s, but evaluating its expressions over the produced step outputs gives %s", o.ID, canonStr(got), strings.Join(alts, " | "))))
			}
		}
	}
	return out
}

// ---------------------------------------------------------------------------------------
// C05: nothing left running or deployed when Execute returns

func oracleC05(s *Scenario, x *vrt.Exec, o *Obs) []vrt.Violation {
	var out []vrt.Violation
	if !o.Returned || x.Outcome().Panic != nil {
		return nil
	}
	open := map[int]string{}
	for _, e := range o.W.Ledger {
		if e.Seq >= o.RetSeq {
			break
		}
		switch e.Kind {
		case "deploy-ok":
			open[e.Conn] = e.Step
		case "conn-close":
			delete(open, e.Conn)
		}
	}
	for _, step := range open {
		out = append(out, viol(s, "deployment-not-closed", step, fmt.Sprintf("plugin %s was deployed but its connection was not closed when Execute returned\n%s", step, o.W.LedgerString())))
	}
	if len(o.Live) > 0 {
		out = append(out, viol(s, "goroutine-alive-after-return", threadSites(o.Live), "goroutines started for the run are still alive after Execute returned: "+strings.Join(o.Live, "; ")))
	}
	for _, e := range o.W.Ledger {
		if e.Seq > o.RetSeq && (strings.HasPrefix(e.Kind, "notify-") || e.Kind == "deploy-ok" || e.Kind == "exec-start") {
			out = append(out, viol(s, "activity-after-return", e.Kind+"/"+e.Step, fmt.Sprintf("%s happened after Execute returned", e)))
			break
		}
	}
	return out
}

func threadSites(live []string) string {
	var sites []string
	for _, l := range live {
		if i := strings.Index(l, "("); i >= 0 {
			if j := strings.Index(l[i:], ")"); j > 0 {
				sites = append(sites, l[i+1:i+j])
			}
		}
	}
	if len(sites) > 3 {
		sites = sites[:3]
	}
	return strings.Join(sites, "+")
}

// ---------------------------------------------------------------------------------------
// C07: no panic; evaluation failures surface as errors

func oracleC07(s *Scenario, x *vrt.Exec, o *Obs) []vrt.Violation {
	var out []vrt.Violation
	if p := x.Outcome().Panic; p != nil {
		frame := firstEngineFrame(p.Stack)
		out = append(out, viol(s, "panic", frame, fmt.Sprintf("panic on goroutine %s: %s\n%s", p.Name, short(p.Value, 300), short(p.Stack, 1500))))
		return out
	}
	for _, m := range x.Outcome().Misuse {
		out = append(out, viol(s, "fatal", short(m, 60), "fatal runtime misuse: "+m))
	}
	if o.Returned && len(s.Ref.EvalErrs) > 0 && o.Err == nil && !o.Cancelled {
		out = append(out, viol(s, "evaluation-failure-not-reported", o.ID, fmt.Sprintf("an expression cannot be evaluated (%s) but the run returned output %s", s.Ref.EvalErrs[0], o.ID)))
	}
	return out
}
