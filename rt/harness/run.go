package main

import (
	"context"
	"fmt"
	"regexp"
	"strings"

	"go.flow.arcalot.io/engine/internal/verif/env"
	"go.flow.arcalot.io/engine/internal/verif/vrt"
)

// Obs is what the driver observed in one execution.
type Obs struct {
	Returned  bool
	ID        string
	Data      any
	Err       error
	RetT      int64
	RetSeq    int
	Live      []string
	W         *env.World
	Cancelled bool
	CancelT   int64
	CancelSeq int
	cancelFn  func()
}

type Oracle func(s *Scenario, x *vrt.Exec, o *Obs) []vrt.Violation

// runBody is the driver "run": one Execute call on the prepared workflow.
func runBody(s *Scenario, obs *Obs, cancelAfterMS int64) func() {
	return func() {
		*obs = Obs{}
		if s.ParseOnly {
			w := env.NewWorld(s.Script)
			w.Phase = "prepare"
			env.W = w
			obs.W = w
			_, err := prepare(s.Prog.YAML(), s.Prog.Files())
			obs.Err = err
			obs.Returned = true
			obs.RetT = vrt.NowMS()
			obs.RetSeq = len(w.Ledger)
			env.Log("prepare-returned", "", "", 0, nil, nil)
			obs.Live = vrt.Settle("harness/settle")
			return
		}
		pw, err := s.prepared()
		if err != nil {
			panic("scenario does not prepare: " + err.Error())
		}
		w := env.NewWorld(s.Script)
		env.W = w
		obs.W = w
		ctx, cancel := vrt.WithCancel("harness/ctx", context.Background())
		obs.cancelFn = func() {
			if obs.Cancelled || obs.Returned {
				return
			}
			obs.Cancelled = true
			obs.CancelT = vrt.NowMS()
			obs.CancelSeq = len(w.Ledger)
			env.Log("cancel", "", "", 0, nil, nil)
			cancel()
		}
		if cancelAfterMS >= 0 {
			vrt.GoDaemon("harness/canceller", func() {
				if cancelAfterMS > 0 {
					vrt.Sleep("harness/canceller", msDur(cancelAfterMS))
				}
				obs.Cancelled = true
				obs.CancelT = vrt.NowMS()
				obs.CancelSeq = len(w.Ledger)
				env.Log("cancel", "", "", 0, nil, nil)
				cancel()
			})
		}
		var in any = s.Input
		if s.RawInput != nil || s.Input == nil {
			in = s.RawInput
		}
		id, data, err := pw.Execute(ctx, in)
		obs.ID, obs.Data, obs.Err = id, data, err
		obs.Returned = true
		obs.RetT = vrt.NowMS()
		obs.RetSeq = len(w.Ledger)
		env.Log("execute-returned", "", "", 0, id, nil)
		obs.Live = vrt.Settle("harness/settle")
		cancel()
	}
}

func outcomeString(o *Obs) string {
	if !o.Returned {
		return "no-return"
	}
	if o.Err != nil {
		return "error:" + errClass(o.Err)
	}
	return o.ID + " " + canonStr(o.Data)
}

var digitsRe = regexp.MustCompile(`[0-9]+`)

func errClass(err error) string {
	s := err.Error()
	switch {
	case strings.Contains(s, "all outputs marked as unresolvable"):
		return "no-more-outputs"
	case strings.Contains(s, "no steps running, no more executable steps"):
		return "no-more-steps"
	case strings.HasPrefix(s, "bug:"), strings.Contains(s, "bug:"):
		return "bug"
	case strings.Contains(s, "workflow execution aborted"):
		return "aborted"
	case strings.Contains(s, "invalid workflow input"):
		return "invalid-input"
	}
	if len(s) > 60 {
		s = s[:60]
	}
	return digitsRe.ReplaceAllString(s, "#")
}

// matchData compares canonical data where the reference may hold "<message>" wildcards.
func matchData(ref, got any) bool {
	switch r := ref.(type) {
	case string:
		if r == "<message>" {
			_, ok := got.(string)
			return ok
		}
		switch got.(type) {
		case map[string]any, []any, nil:
			return false
		}
		return r == fmt.Sprint(got)
	case map[string]any:
		g, ok := got.(map[string]any)
		if !ok || len(g) != len(r) {
			return false
		}
		for k, v := range r {
			gv, ok := g[k]
			if !ok || !matchData(v, gv) {
				return false
			}
		}
		return true
	case []any:
		g, ok := got.([]any)
		if !ok || len(g) != len(r) {
			return false
		}
		for i := range r {
			if !matchData(r[i], g[i]) {
				return false
			}
		}
		return true
	}
	// scalars: YAML literals reach the engine as strings and are coerced by the receiving schema,
	// so 10 and "10" are the same value at this level
	return fmt.Sprint(canon(ref)) == fmt.Sprint(canon(got))
}

// ---------------------------------------------------------------------------------------
// trace view: what the step providers reported, reconstructed from the ledger

type traceView struct {
	*RefRun
	producedAt map[string]int // key -> ledger seq
	failedAt   map[string]int // "steps.S.stage" -> seq of declared failure
}

func asNotif(v any) (notif, bool) {
	n, ok := v.(notif)
	return n, ok
}

// traceUpTo builds the store of produced stage outputs from notifications with seq < upto.
func traceUpTo(s *Scenario, w *env.World, upto int) *traceView {
	r := &RefRun{Prog: s.Prog, Script: s.Script, Input: canon(s.Input), St: map[string]Status{}, Outcome: map[string]*StepOutcome{},
		OutSt: map[string]Status{}, OutData: map[string]any{}, Unique: true}
	if s.NormInput != nil {
		r.Input = s.NormInput
	}
	r.Store = map[string]any{"input": r.Input, "steps": map[string]any{}}
	tv := &traceView{RefRun: r, producedAt: map[string]int{}, failedAt: map[string]int{}}
	ids := map[string]string{}
	for _, st := range s.Prog.Steps {
		k := st.Kind
		if k == "" {
			k = "plugin"
		}
		ids[st.ID] = k
		outs := pluginOutputs
		if k == "foreach" {
			outs = foreachOutputs
		}
		for _, o := range outs {
			r.St[key(st.ID, o[0], o[1])] = Never
		}
	}
	for _, e := range w.Ledger {
		if e.Seq >= upto {
			break
		}
		if _, mine := ids[e.Step]; !mine {
			continue
		}
		switch e.Kind {
		case "notify-change", "notify-complete":
			n, _ := asNotif(e.Data)
			if n.OutputID != "" {
				k := key(e.Step, n.Prev, n.OutputID)
				if _, dup := tv.producedAt[k]; !dup {
					tv.producedAt[k] = e.Seq
					r.set(e.Step, n.Prev, n.OutputID, Produced, canon(n.Output))
					// the alternative outputs of a finished stage can no longer be produced
					pre := "steps." + e.Step + "." + n.Prev + "."
					for k2, st := range r.St {
						if strings.HasPrefix(k2, pre) && k2 != k && st == Never {
							r.St[k2] = Impossible
						}
					}
				}
			}
		case "notify-failure":
			stage, _ := e.Data.(string)
			sk := "steps." + e.Step + "." + stage
			if _, dup := tv.failedAt[sk]; !dup {
				tv.failedAt[sk] = e.Seq
			}
			// a stage that cannot happen makes the stages that can only follow it impossible too
			// (the AND edges of the declared lifecycle)
			for _, stg := range lifecycleClosure(ids[e.Step], stage) {
				pre := "steps." + e.Step + "." + stg + "."
				for k, st := range r.St {
					if strings.HasPrefix(k, pre) && st == Never {
						r.St[k] = Impossible
					}
				}
			}
		}
	}
	return tv
}

var lifecycleAnd = map[string]map[string][]string{
	"plugin":  {"deploy": {"starting"}, "enabling": {"starting", "disabled"}, "starting": {"running"}, "running": {"outputs"}},
	"foreach": {"enabling": {"execute", "disabled"}, "execute": {"outputs"}},
}

func lifecycleClosure(kind, stage string) []string {
	out := []string{stage}
	seen := map[string]bool{stage: true}
	for i := 0; i < len(out); i++ {
		for _, n := range lifecycleAnd[kind][out[i]] {
			if !seen[n] {
				seen[n] = true
				out = append(out, n)
			}
		}
	}
	return out
}

// evalSet returns every value the node may legitimately evaluate to over the store
// (soft optionals present or absent, any available one-of alternative).
func (r *RefRun) evalSet(n Node) ([]any, error) {
	const limit = 128
	switch v := n.(type) {
	case nil:
		return []any{nil}, nil
	case Lit:
		return []any{canon(v.V)}, nil
	case Ex:
		x, err := r.evalExpr(v.Text)
		if err != nil {
			return nil, err
		}
		return []any{x}, nil
	case Opt:
		st := r.refsStatus(v.Text)
		if st != Produced {
			return []any{absent{}}, nil
		}
		x, err := r.evalExpr(v.Text)
		if err != nil {
			return nil, err
		}
		if v.Wait {
			return []any{x}, nil
		}
		return []any{x, absent{}}, nil
	case OrDisabled:
		return r.evalSet(OneOf{Disc: "result", Opts: []Field{{"enabled", Ex{v.Text}}, {"disabled", Ex{disabledPath(v.Text)}}}})
	case OneOf:
		var out []any
		for _, o := range v.Opts {
			if r.need(o.Val).st != Produced {
				continue
			}
			xs, err := r.evalSet(o.Val)
			if err != nil {
				return nil, err
			}
			for _, x := range xs {
				m, ok := x.(map[string]any)
				if !ok {
					continue
				}
				c := map[string]any{}
				for k, vv := range m {
					c[k] = vv
				}
				c[v.Disc] = o.Name
				out = append(out, c)
			}
		}
		return out, nil
	case List:
		acc := [][]any{{}}
		for _, it := range v.Items {
			xs, err := r.evalSet(it)
			if err != nil {
				return nil, err
			}
			var next [][]any
			for _, a := range acc {
				for _, x := range xs {
					next = append(next, append(append([]any{}, a...), x))
					if len(next) > limit {
						break
					}
				}
			}
			acc = next
		}
		out := make([]any, len(acc))
		for i, a := range acc {
			out[i] = a
		}
		return out, nil
	case Obj:
		acc := []map[string]any{{}}
		for _, f := range v.Fields {
			xs, err := r.evalSet(f.Val)
			if err != nil {
				return nil, err
			}
			var next []map[string]any
			for _, a := range acc {
				for _, x := range xs {
					c := map[string]any{}
					for k, vv := range a {
						c[k] = vv
					}
					if _, isAbsent := x.(absent); !isAbsent && x != nil {
						c[f.Name] = x
					}
					next = append(next, c)
					if len(next) > limit {
						break
					}
				}
			}
			acc = next
		}
		out := make([]any, len(acc))
		for i, a := range acc {
			out[i] = a
		}
		return out, nil
	}
	return nil, fmt.Errorf("evalSet: %T", n)
}

func inSet(set []any, got any) bool {
	for _, x := range set {
		if matchData(x, got) {
			return true
		}
	}
	return false
}

func short(s string, n int) string {
	if len(s) > n {
		return s[:n] + "…"
	}
	return s
}
