package main

import (
	"fmt"
	"strings"
	"sync"
	"time"

	"go.flow.arcalot.io/engine/internal/step"
	"go.flow.arcalot.io/engine/internal/step/plugin"
	"go.flow.arcalot.io/engine/internal/verif/env"
	"go.flow.arcalot.io/engine/internal/verif/vrt"
)

// ---------------------------------------------------------------------------------------
// C12: one plugin step driven directly through step.RunnableStep / step.RunningStep by
// concurrent environment threads; the notifications are checked by a lifecycle monitor.

type c12Event struct {
	Kind     string // change, complete, failure, close-call, close-ret, forceclose-call, forceclose-ret, provide, provide-ret
	Prev     string
	New      string
	OutputID string
	Stage    string
	Err      string
	Begin    bool
	Thread   int
}

func (e c12Event) String() string {
	switch e.Kind {
	case "change":
		return fmt.Sprintf("OnStageChange(%s.%s -> %s)%s", e.Prev, e.OutputID, e.New, beginEnd(e.Begin))
	case "complete":
		return fmt.Sprintf("OnStepComplete(%s.%s)%s", e.Prev, e.OutputID, beginEnd(e.Begin))
	case "failure":
		return fmt.Sprintf("OnStepStageFailure(%s)%s", e.Stage, beginEnd(e.Begin))
	case "provide":
		return fmt.Sprintf("ProvideStageInput(%s)", e.Stage)
	case "provide-ret":
		return fmt.Sprintf("ProvideStageInput(%s) returned %q", e.Stage, e.Err)
	}
	return e.Kind + " " + e.Err
}

func beginEnd(b bool) string {
	if b {
		return ""
	}
	return " done"
}

type c12Handler struct {
	mu     sync.Mutex
	events []c12Event
	rs     step.RunningStep
}

func (h *c12Handler) add(e c12Event) {
	e.Thread = vrt.CurrentThread()
	h.events = append(h.events, e)
}

// like the run loop, the handler takes its own lock and asks the step for its state
func (h *c12Handler) touch() {
	vrt.MutexLock("harness/c12.handler", &h.mu)
	if h.rs != nil {
		_ = h.rs.State()
	}
	vrt.MutexUnlock("harness/c12.handler", &h.mu)
}

func (h *c12Handler) OnStageChange(_ step.RunningStep, prev *string, outID *string, _ *any, stage string, _ bool, _ *sync.WaitGroup) {
	e := c12Event{Kind: "change", New: stage, Begin: true}
	e.Prev, _ = deref(prev)
	e.OutputID, _ = deref(outID)
	if prev == nil {
		e.Prev = "-"
	}
	h.add(e)
	h.touch()
	e.Begin = false
	h.add(e)
}

func (h *c12Handler) OnStepComplete(_ step.RunningStep, prev string, outID *string, _ *any, _ *sync.WaitGroup) {
	e := c12Event{Kind: "complete", Prev: prev, Begin: true}
	e.OutputID, _ = deref(outID)
	h.add(e)
	h.touch()
	e.Begin = false
	h.add(e)
}

func (h *c12Handler) OnStepStageFailure(_ step.RunningStep, stage string, _ *sync.WaitGroup, _ error) {
	e := c12Event{Kind: "failure", Stage: stage, Begin: true}
	h.add(e)
	h.touch()
	e.Begin = false
	h.add(e)
}

type c12Scenario struct {
	kind      string // "plugin" (default) or "foreach"
	name      string
	script    env.StepScript
	order     []string // order in which deploy / enabling / starting inputs are provided
	dup       string   // stage whose input is provided twice ("" none)
	stop      bool     // a thread provides a truthy stop condition
	closers   []string // "close", "forceclose"
	enabled   any      // value of enabled (nil, true, false)
	closureMS int64
	pstep     string // plugin step id: "run" (default, has a cancel signal handler) or "nosig"
}

func (sc *c12Scenario) stepID() string {
	if sc.pstep == "" {
		return "run"
	}
	return sc.pstep
}

type c12Obs struct {
	h        *c12Handler
	final    step.RunningStepState
	stage    string
	closeErr []string
	blocked  []string
}

var c12Runnable step.RunnableStep
var c12Lifecycle step.Lifecycle[step.LifecycleStageWithSchema]
var c12nLifecycle step.Lifecycle[step.LifecycleStageWithSchema] // plugin step without signal handlers
var c12fRunnable step.RunnableStep
var c12fLifecycle step.Lifecycle[step.LifecycleStageWithSchema]

func c12Prepare() error {
	if c12Runnable != nil {
		return nil
	}
	saved := env.W
	env.W = env.NewWorld(&env.Script{})
	env.W.Phase = "prepare"
	defer func() { env.W = saved }()
	pp, err := plugin.New(quietLogger, env.NewRegistry(), map[string]any{"builtin": map[string]any{"deployer_name": "scripted"}})
	if err != nil {
		return err
	}
	rs, err := pp.LoadSchema(map[string]any{"plugin": map[string]any{"src": "s", "deployment_type": "builtin"}}, nil)
	if err != nil {
		return err
	}
	lc, err := rs.Lifecycle(map[string]any{"step": "run"})
	if err != nil {
		return err
	}
	c12Runnable, c12Lifecycle = rs, lc
	if c12nLifecycle, err = rs.Lifecycle(map[string]any{"step": "nosig"}); err != nil {
		return err
	}
	// the loop provider over the real prepared sub-workflow
	reg, _, err := newRegistry()
	if err != nil {
		return err
	}
	fp, err := reg.GetByKind("foreach")
	if err != nil {
		return err
	}
	frs, err := fp.LoadSchema(map[string]any{"workflow": "sub.yaml"}, map[string][]byte{"sub.yaml": []byte(subProg().YAML())})
	if err != nil {
		return err
	}
	flc, err := frs.Lifecycle(nil)
	if err != nil {
		return err
	}
	c12fRunnable, c12fLifecycle = frs, flc
	return nil
}

func c12Body(sc *c12Scenario, obs *c12Obs) func() {
	return func() {
		*obs = c12Obs{}
		st := sc.script
		env.W = env.NewWorld(&env.Script{Steps: map[string]*env.StepScript{"s": &st, "w": &st}})
		h := &c12Handler{}
		obs.h = h
		runnable := c12Runnable
		if sc.kind == "foreach" {
			runnable = c12fRunnable
		}
		rs, err := runnable.Start(map[string]any{"step": sc.stepID()}, "s", h)
		if err != nil {
			panic(err)
		}
		h.rs = rs
		var wg sync.WaitGroup
		spawn := func(name string, f func()) {
			vrt.WaitGroupAdd("harness/c12", &wg, 1)
			vrt.Go("harness/c12."+name, func() {
				defer vrt.WaitGroupDone("harness/c12", &wg)
				f()
			})
		}
		provide := func(stage string) {
			var in map[string]any
			switch stage {
			case "deploy":
				in = map[string]any{}
			case "enabling":
				in = map[string]any{}
				if sc.enabled != nil {
					in["enabled"] = sc.enabled
				}
			case "starting":
				in = map[string]any{"input": map[string]any{"v": 1}}
				if sc.closureMS >= 0 {
					in["closure_wait_timeout"] = sc.closureMS
				}
			case "cancelled":
				in = map[string]any{"stop_if": true}
			case "execute":
				in = map[string]any{"items": []any{map[string]any{"v": 1}, map[string]any{"v": 2}}, "parallelism": 2}
			}
			h.add(c12Event{Kind: "provide", Stage: stage})
			err := rs.ProvideStageInput(stage, in)
			e := c12Event{Kind: "provide-ret", Stage: stage}
			if err != nil {
				e.Err = err.Error()
			}
			h.add(e)
		}
		spawn("inputs", func() {
			for _, stg := range sc.order {
				provide(stg)
				if stg == sc.dup {
					provide(stg)
				}
			}
		})
		if sc.stop {
			spawn("stop", func() { provide("cancelled") })
		}
		for i, c := range sc.closers {
			c := c
			spawn(fmt.Sprintf("closer%d", i), func() {
				h.add(c12Event{Kind: c + "-call"})
				var err error
				if c == "close" {
					err = rs.Close()
				} else {
					err = rs.ForceClose()
				}
				e := c12Event{Kind: c + "-ret"}
				if err != nil {
					e.Err = err.Error()
				}
				h.add(e)
			})
		}
		vrt.WaitGroupWait("harness/c12", &wg)
		// let the step run as far as it can on its own, then close it for good
		vrt.Sleep("harness/c12.linger", 20*time.Second)
		h.add(c12Event{Kind: "final-forceclose-call"})
		if err := rs.ForceClose(); err != nil {
			obs.closeErr = append(obs.closeErr, err.Error())
		}
		h.add(c12Event{Kind: "final-forceclose-ret"})
		if err := rs.Close(); err != nil {
			obs.closeErr = append(obs.closeErr, "second close: "+err.Error())
		}
		h.add(c12Event{Kind: "final-close-ret"})
		obs.blocked = vrt.Settle("harness/c12.settle")
		obs.final = rs.State()
		obs.stage = rs.CurrentStage()
	}
}

func c12Check(sc *c12Scenario, x *vrt.Exec, obs *c12Obs) []vrt.Violation {
	var out []vrt.Violation
	v := func(clause, key, detail string) {
		var lines []string
		if obs.h != nil {
			for _, e := range obs.h.events {
				if e.Begin || (e.Kind != "change" && e.Kind != "complete" && e.Kind != "failure") {
					lines = append(lines, fmt.Sprintf("T%d %s", e.Thread, e))
				}
			}
		}
		pfx := "pluginstep/"
		if sc.kind == "foreach" {
			pfx = "loopstep/"
		}
		out = append(out, vrt.Violation{Key: pfx + clause + "/" + key, Detail: detail + "\n  scenario: " + sc.name + "\n  events: " + strings.Join(lines, "; ")})
	}
	oc := x.Outcome()
	if oc.Panic != nil {
		v("panic", firstEngineFrame(oc.Panic.Stack), "panic: "+short(oc.Panic.Value, 300)+"\n"+short(oc.Panic.Stack, 1200))
		return out
	}
	for _, m := range oc.Misuse {
		v("fatal", short(m, 50), m)
	}
	if oc.Deadlock {
		v("blocks-forever", blockedKey(oc.Blocked), "a call never returns: "+strings.Join(oc.Blocked, "; "))
		return out
	}
	if obs.h == nil {
		return out
	}
	declaredOut := map[string]map[string]bool{}
	lifecycle := c12Lifecycle
	if sc.pstep == "nosig" {
		lifecycle = c12nLifecycle
	}
	if sc.kind == "foreach" {
		lifecycle = c12fLifecycle
	}
	for _, stg := range lifecycle.Stages {
		declaredOut[stg.ID] = map[string]bool{}
		for o := range stg.Outputs {
			declaredOut[stg.ID][o] = true
		}
	}
	finished := map[string]int{}
	failed := map[string]bool{}
	completes := 0
	cur := ""
	closeReturned := false
	afterComplete := false
	provided := map[string]int{}
	for ei, e := range obs.h.events {
		switch e.Kind {
		case "close-ret", "forceclose-ret", "final-forceclose-ret":
			closeReturned = true
		case "provide-ret":
			if e.Stage == "deploy" || e.Stage == "enabling" || e.Stage == "starting" || e.Stage == "execute" {
				provided[e.Stage]++
				if provided[e.Stage] == 2 && e.Err == "" && !closeRequestedBefore(obs.h.events, ei) {
					v("duplicate-input-accepted", e.Stage, "the "+e.Stage+" input was provided twice and the second call was not refused")
				}
			}
		}
		if !e.Begin {
			continue
		}
		switch e.Kind {
		case "change", "complete", "failure":
			if closeReturned {
				v("notification-after-close-returned", e.Kind+"/"+e.Prev+e.Stage, "notification "+e.String()+" started after a close request had returned")
			}
			if afterComplete && e.Kind != "failure" {
				v("notification-after-completion", e.Kind, "stage notification "+e.String()+" after the step reported completion")
			}
		}
		switch e.Kind {
		case "change":
			if e.Prev == "-" {
				// a notification without a previous stage announces the stage the step is in (the loop
				// provider repeats it to say that it waits for input); it must name the current stage
				if cur != "" && e.New != cur {
					v("initial-notification-for-other-stage", e.New, "notification without previous stage names "+e.New+" while the step is in "+cur)
				}
				cur = e.New
				continue
			}
			if cur != "" && e.Prev != cur {
				v("inconsistent-path", e.Prev+"->"+e.New, fmt.Sprintf("stage change reports previous stage %s but the step was in %s", e.Prev, cur))
			}
			finished[e.Prev]++
			if e.OutputID != "" && !declaredOut[e.Prev][e.OutputID] {
				v("undeclared-output", e.Prev+"."+e.OutputID, "output "+e.OutputID+" is not declared for stage "+e.Prev)
			}
			cur = e.New
		case "complete":
			completes++
			afterComplete = true
			finished[e.Prev]++
			if cur != "" && e.Prev != cur {
				v("inconsistent-path", e.Prev+"->done", fmt.Sprintf("completion reports stage %s but the step was in %s", e.Prev, cur))
			}
			if e.OutputID != "" && !declaredOut[e.Prev][e.OutputID] {
				v("undeclared-output", e.Prev+"."+e.OutputID, "output "+e.OutputID+" is not declared for stage "+e.Prev)
			}
		case "failure":
			failed[e.Stage] = true
			if e.Stage == cur {
				// the stage the step is in will not finish: the step leaves it towards closed / crashed
				cur = ""
			}
			if _, ok := declaredOut[e.Stage]; !ok {
				v("undeclared-stage", e.Stage, "failure declared for a stage the lifecycle does not have")
			}
		}
	}
	for stg, n := range finished {
		if n > 1 {
			v("stage-finished-twice", stg, fmt.Sprintf("stage %s was reported finished %d times", stg, n))
		}
		if failed[stg] && stg != cur {
			// the stage the step was in when it was closed is declared failed instead of finished
			v("stage-finished-and-impossible", stg, "stage "+stg+" was reported both finished and impossible")
		}
	}
	if completes != 1 {
		v("completion-count", fmt.Sprint(completes), fmt.Sprintf("the step reported completion %d times (must be exactly once after it was closed)", completes))
	}
	if completes >= 1 && obs.final != step.RunningStepStateFinished {
		v("not-finished-after-completion", string(obs.final), "after reporting completion the step shows state "+string(obs.final))
	}
	for _, e := range obs.closeErr {
		v("close-error", short(e, 40), "closing returned an error: "+e)
	}
	if len(obs.blocked) > 0 {
		v("goroutine-alive-after-close", threadSites(obs.blocked), "goroutines still alive after the step was closed: "+strings.Join(obs.blocked, "; "))
	}
	return out
}

func closeRequestedBefore(events []c12Event, idx int) bool {
	// once closing has been requested, inputs may be ignored silently
	for i := 0; i < idx; i++ {
		if strings.HasSuffix(events[i].Kind, "-call") {
			return true
		}
	}
	return false
}

func c12Scenarios(tier string) []*c12Scenario {
	var out []*c12Scenario
	scripts := []struct {
		n string
		s env.StepScript
	}{
		{"ok", env.StepScript{}},
		{"err", env.StepScript{Run: env.RunErrorOut}},
		{"crash", env.StepScript{Run: env.RunCrash}},
		{"hang", env.StepScript{Run: env.RunHangCancel}},
		{"hangx", env.StepScript{Run: env.RunHangIgnore}},
		{"mismatch", env.StepScript{Run: env.RunSchemaMismatch}},
		{"nodeploy", env.StepScript{Deploy: env.DeployFail}},
		{"deployhang", env.StepScript{Deploy: env.DeployHang}},
		{"slowdeploy", env.StepScript{DeployMS: 10, DeployIgnoreCtx: true}},
	}
	orders := [][]string{{"deploy", "enabling", "starting"}, {"starting", "enabling", "deploy"}, {"enabling", "starting", "deploy"}}
	if tier == "thorough" {
		orders = append(orders, []string{"deploy", "starting", "enabling"}, []string{"enabling", "deploy", "starting"}, []string{"starting", "deploy", "enabling"})
	}
	type variant struct {
		n       string
		stop    bool
		closers []string
		dup     string
		enabled any
		closure int64
	}
	variants := []variant{
		{"plain", false, nil, "", nil, -1},
		{"close", false, []string{"close"}, "", nil, -1},
		{"forceclose", false, []string{"forceclose"}, "", nil, -1},
		{"close+forceclose", false, []string{"close", "forceclose"}, "", nil, 0},
		{"2forceclose", false, []string{"forceclose", "forceclose"}, "", nil, 50},
		{"stop", true, nil, "", nil, 0},
		{"stop+forceclose", true, []string{"forceclose"}, "", nil, 0},
		{"stop+close", true, []string{"close"}, "", nil, 50},
		{"dupdeploy", false, nil, "deploy", nil, -1},
		{"dupstart", false, nil, "starting", true, -1},
		{"dupenable", false, []string{"forceclose"}, "enabling", nil, -1},
		{"disabled", false, nil, "", false, -1},
		{"disabled+close", false, []string{"close"}, "", false, -1},
		{"disabled+dupenable", false, nil, "enabling", false, -1},
		{"disabled+dupenable+forceclose", false, []string{"forceclose"}, "enabling", false, -1},
		{"enabled+dupenable", false, nil, "enabling", true, -1},
	}
	// loop provider: enabling / execute inputs, Close / ForceClose at any time
	for _, sc := range []struct {
		n string
		s env.StepScript
	}{{"ok", env.StepScript{}}, {"err", env.StepScript{Run: env.RunErrorOut}}, {"hang", env.StepScript{Run: env.RunHangCancel}}, {"nodeploy", env.StepScript{Deploy: env.DeployFail}}} {
		for oi, ord := range [][]string{{"enabling", "execute"}, {"execute", "enabling"}} {
			for _, vr := range []variant{
				{"plain", false, nil, "", nil, -1}, {"close", false, []string{"close"}, "", nil, -1}, {"forceclose", false, []string{"forceclose"}, "", nil, -1},
				{"close+forceclose", false, []string{"close", "forceclose"}, "", nil, -1}, {"dupexecute", false, nil, "execute", nil, -1},
				{"dupenable", false, []string{"close"}, "enabling", nil, -1}, {"disabled", false, nil, "", false, -1}, {"disabled+close", false, []string{"close"}, "", false, -1},
			} {
				out = append(out, &c12Scenario{kind: "foreach",
					name:   fmt.Sprintf("foreach/%s/order%d/%s", sc.n, oi, vr.n),
					script: sc.s, order: ord, dup: vr.dup, stop: vr.stop, closers: vr.closers, enabled: vr.enabled, closureMS: vr.closure,
				})
			}
		}
	}
	// a plugin step without a cancel signal handler: closing it while it runs takes another path
	for _, sc := range scripts {
		if sc.n == "nodeploy" || sc.n == "deployhang" || sc.n == "slowdeploy" || sc.n == "mismatch" {
			continue
		}
		for _, vr := range []variant{{"plain", false, nil, "", nil, -1}, {"close", false, []string{"close"}, "", nil, -1}, {"forceclose", false, []string{"forceclose"}, "", nil, -1},
			{"close+forceclose", false, []string{"close", "forceclose"}, "", nil, 0}, {"2forceclose", false, []string{"forceclose", "forceclose"}, "", nil, 50}} {
			// no stop-condition variant: the lifecycle disables stop_if for a step without the cancel signal
			out = append(out, &c12Scenario{pstep: "nosig",
				name:   fmt.Sprintf("nosig/%s/order0/%s", sc.n, vr.n),
				script: sc.s, order: orders[0], dup: vr.dup, stop: vr.stop, closers: vr.closers, enabled: vr.enabled, closureMS: vr.closure,
			})
		}
	}
	for _, sc := range scripts {
		for oi, ord := range orders {
			for _, vr := range variants {
				if oi > 0 && (vr.dup != "" || vr.enabled == false) && tier != "thorough" {
					continue
				}
				out = append(out, &c12Scenario{
					name:   fmt.Sprintf("%s/order%d/%s", sc.n, oi, vr.n),
					script: sc.s, order: ord, dup: vr.dup, stop: vr.stop, closers: vr.closers, enabled: vr.enabled, closureMS: vr.closure,
				})
			}
		}
	}
	return out
}

func init() {
	register(&PropCheck{ID: "C12", Level: "model_checking",
		Rule:        "one plugin step driven through RunnableStep.Start by concurrent environment threads (inputs in several orders and duplicated, stop condition, Close and ForceClose, each at any time) x deployer and plugin scripts; all interleavings within the deviation bound; a lifecycle monitor checks every notification sequence",
		Assumptions: commonAssumptions,
		Budget:      budget(170*time.Second, 28*time.Minute),
		Units: func(tier string) []*Unit {
			var us []*Unit
			for _, sc := range c12Scenarios(tier) {
				sc := sc
				us = append(us, &Unit{Name: sc.name, Run: func(deadline time.Time) *UnitResult {
					res := &UnitResult{}
					if err := c12Prepare(); err != nil {
						res.HarnessErrors = append(res.HarnessErrors, "c12 prepare: "+err.Error())
						return res
					}
					var obs c12Obs
					body := c12Body(sc, &obs)
					bound, maxExecs := tierBound(tier, 2, 3), tierBound(tier, 20000, 2000000)
					if sc.kind == "foreach" {
						bound, maxExecs = tierBound(tier, 1, 2), tierBound(tier, 3000, 400000)
					}
					cfg := vrt.ExploreCfg{Bound: capBound(bound), Menu: menuTSE, Deadline: deadline, MaxExecs: maxExecs,
						Exec: vrt.Config{Race: raceMode},
						Check: func(x *vrt.Exec) []vrt.Violation {
							out := c12Check(sc, x, &obs)
							if raceMode {
								out = append(out, raceViolations(x)...)
							}
							return out
						},
						Outcome: func(x *vrt.Exec) string {
							var parts []string
							if obs.h != nil {
								for _, e := range obs.h.events {
									if e.Begin {
										parts = append(parts, e.String())
									}
								}
							}
							return strings.Join(parts, ";")
						}}
					if replaySchedule != nil {
						x := vrt.Replay(cfg.Exec, replaySchedule, body)
						for _, v := range cfg.Check(x) {
							res.Violations = append(res.Violations, vrt.FoundViolation{Violation: v, Schedule: replaySchedule, Trace: vrt.FormatTrace(x.Trace())})
						}
						return res
					}
					st := vrt.Explore(cfg, body)
					res.Execs, res.Points, res.Signatures, res.Outcomes = st.Execs, st.Points, st.Signatures, len(st.Outcomes)
					res.BoundCompleted, res.Exhaustive, res.CapHit = st.BoundCompleted, st.Exhaustive, st.CapHit
					res.Violations, res.HarnessErrors = st.Violations, st.HarnessErrors
					for k := range st.Outcomes {
						if len(res.OutcomeSample) < 2 {
							res.OutcomeSample = append(res.OutcomeSample, short(k, 300))
						}
					}
					res.Sample = sc.name
					return res
				}})
			}
			return us
		}})
}
