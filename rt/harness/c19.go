package main

import (
	"context"
	"fmt"
	"io"
	"os"
	"path/filepath"
	"strings"
	"time"

	engine "go.flow.arcalot.io/engine"
	"go.flow.arcalot.io/engine/config"
	"go.flow.arcalot.io/engine/internal/verif/env"
	"go.flow.arcalot.io/engine/internal/verif/vrt"
	"go.flow.arcalot.io/engine/loadfile"
	log "go.arcalot.io/log/v2"
	"go.flow.arcalot.io/pluginsdk/schema"
	"gopkg.in/yaml.v3"
)

// ---------------------------------------------------------------------------------------
// C19: invalid input starts nothing; steps see the schema-normalised input.

type c19Schema struct {
	name string
	yaml string
	// which input fields exist (drives the program built on top)
	hasS, hasFlag, hasL, hasO, hasF bool
	hasLD bool // list field with default [] read through plain expressions (in a step input and in the output)
}

func propYAML(name, typ string, required bool, def string) string {
	s := fmt.Sprintf("      %s:\n        required: %v\n", name, required)
	if def != "" {
		s += "        default: '" + def + "'\n"
	}
	s += "        type:\n" + indent(typ, 10)
	return s
}

func c19Schemas() []*c19Schema {
	root := func(props string, extraObjects string) string {
		return "root: RootObject\nobjects:\n  RootObject:\n    id: RootObject\n    properties:\n" + props + extraObjects
	}
	intT := "type_id: integer\n"
	return []*c19Schema{
		{name: "int", yaml: root(propYAML("n", intT, true, ""), "")},
		{name: "int-range", yaml: root(propYAML("n", "type_id: integer\nmin: 0\nmax: 10\n", true, ""), "")},
		{name: "int-default", yaml: root(propYAML("n", intT, false, "7"), "")},
		{name: "string-default", hasS: true, yaml: root(propYAML("n", intT, true, "")+propYAML("s", "type_id: string\nmin: 1\nmax: 5\n", false, `"dflt"`), "")},
		{name: "bool", hasFlag: true, yaml: root(propYAML("n", intT, true, "")+propYAML("flag", "type_id: bool\n", false, "true"), "")},
		{name: "list", hasL: true, yaml: root(propYAML("n", intT, true, "")+propYAML("l", "type_id: list\nitems:\n  type_id: integer\nmin: 1\nmax: 3\n", false, ""), "")},
		{name: "list-default", hasLD: true, yaml: root(propYAML("n", intT, true, "")+propYAML("l", "type_id: list\nitems:\n  type_id: integer\n", false, `"[]"`), "")},
		{name: "float", hasF: true, yaml: root(propYAML("n", intT, true, "")+propYAML("f", "type_id: float\n", false, "1.5"), "")},
		{name: "object", hasO: true, yaml: root(propYAML("n", intT, true, "")+propYAML("o", "type_id: ref\nid: scripted-sub\n", false, ""),
			"  scripted-sub:\n    id: scripted-sub\n    properties:\n      a:\n        type:\n          type_id: integer\n      b:\n        required: false\n        default: '\"bee\"'\n        type:\n          type_id: string\n")},
		{name: "stepref", hasO: true, yaml: root(propYAML("n", intT, true, "")+propYAML("o", "type_id: ref\nid: scripted-sub\nnamespace: $.steps.a.starting.inputs.input\n", false, ""), "")},
	}
}

func (cs *c19Schema) program() *Program {
	in := []any{"v", E("$.input.n")}
	in2 := []any{"v", E("$.input.n")}
	if cs.hasS {
		in = append(in, "s", E("$.input.s"))
		in2 = append(in2, "s", E("$.input.s"))
	}
	if cs.hasL {
		in = append(in, "l", Opt{true, "$.input.l"})
		in2 = append(in2, "l", Opt{true, "$.input.l"})
	}
	if cs.hasLD {
		in = append(in, "l", E("$.input.l"))
		in2 = append(in2, "l", E("$.input.l"))
	}
	if cs.hasO {
		in = append(in, "o", Opt{true, "$.input.o"})
		in2 = append(in2, "o", Opt{true, "$.input.o"})
	}
	p := &Program{Name: "input-" + cs.name, InputSchema: cs.yaml, Steps: []Step{
		{ID: "a", Input: O(in...)},
		{ID: "b", Input: O(in2...), WaitFor: E("$.steps.a.outputs.success")},
	}}
	out := []any{"r", E(sv("b")), "n", E("$.input.n")}
	if cs.hasFlag {
		p.Steps[1].Enabled = E("$.input.flag")
		out = []any{"n", E("$.input.n"), "flag", E("$.input.flag")}
		p.Outputs = []Output{{"success", O(append(out, "r", OrDisabled{"$.steps.b.outputs.success"})...)}}
		return p
	}
	if cs.hasF {
		out = append(out, "f", E("$.input.f"))
	}
	if cs.hasLD {
		out = append(out, "l", E("$.input.l"), "m", O("inner", E("$.input.l")))
	}
	if cs.hasO {
		// the output refers to an input field whose type is a reference to another object of the input scope
		out = append(out, "o", Opt{true, "$.input.o"})
	}
	p.Outputs = []Output{{"success", O(out...)}}
	return p
}

func (cs *c19Schema) docs() []any {
	docs := []any{
		map[string]any{"n": 5}, map[string]any{"n": "5"}, map[string]any{"n": "x"}, map[string]any{}, map[string]any{"n": 5, "extra": 1},
		map[string]any{"n": 5.5}, map[string]any{"n": true}, map[string]any{"n": int64(9223372036854775807)}, map[string]any{"n": nil},
		map[string]any{"n": 11}, map[string]any{"n": -1}, map[string]any{"n": 10}, map[string]any{"n": []any{1}}, "notamap", nil, []any{1},
	}
	if cs.hasS {
		docs = append(docs, map[string]any{"n": 1, "s": "x"}, map[string]any{"n": 1, "s": ""}, map[string]any{"n": 1, "s": "toolong"}, map[string]any{"n": 1, "s": 5}, map[string]any{"n": 1, "s": map[string]any{}})
	}
	if cs.hasFlag {
		docs = append(docs, map[string]any{"n": 1, "flag": false}, map[string]any{"n": 1, "flag": "true"}, map[string]any{"n": 1, "flag": "no"}, map[string]any{"n": 1, "flag": 0}, map[string]any{"n": 1, "flag": "maybe"})
	}
	if cs.hasL {
		docs = append(docs, map[string]any{"n": 1, "l": []any{1, "2"}}, map[string]any{"n": 1, "l": []any{}}, map[string]any{"n": 1, "l": []any{1, 2, 3, 4}}, map[string]any{"n": 1, "l": "x"}, map[string]any{"n": 1, "l": []any{"x"}})
	}
	if cs.hasLD {
		docs = append(docs, map[string]any{"n": 1, "l": []any{}}, map[string]any{"n": 1, "l": []any{1, "2"}}, map[string]any{"n": 1, "l": []any{0}}, map[string]any{"n": 1, "l": "x"}, map[string]any{"n": 1, "l": nil})
	}
	if cs.hasF {
		docs = append(docs, map[string]any{"n": 1, "f": 2.25}, map[string]any{"n": 1, "f": "2.5"}, map[string]any{"n": 1, "f": 3}, map[string]any{"n": 1, "f": "abc"})
	}
	if cs.hasO {
		docs = append(docs, map[string]any{"n": 1, "o": map[string]any{"a": 2}}, map[string]any{"n": 1, "o": map[string]any{}}, map[string]any{"n": 1, "o": map[string]any{"a": "3", "b": "q"}},
			map[string]any{"n": 1, "o": map[string]any{"a": 2, "zz": 1}}, map[string]any{"n": 1, "o": "x"})
	}
	return docs
}

// independentScope builds the input scope straight from the schema text (not through the engine).
func independentScope(text string) (schema.Scope, error) {
	var raw any
	if err := yaml.Unmarshal([]byte(text), &raw); err != nil {
		return nil, err
	}
	sc, err := schema.DescribeScope().Unserialize(canon(raw))
	if err != nil {
		return nil, err
	}
	scope := sc.(schema.Scope)
	scope.ApplySelf()
	return scope, nil
}

func toYAMLDoc(doc any) []byte {
	b, err := yaml.Marshal(doc)
	if err != nil {
		return []byte("{}")
	}
	return b
}

func c19Unit(cs *c19Schema) *Unit {
	return &Unit{Name: "schema/" + cs.name, Run: func(deadline time.Time) *UnitResult {
		res := &UnitResult{Exhaustive: true, BoundCompleted: 1}
		p := cs.program()
		seenV := map[string]bool{}
		add := func(v vrt.Violation, sched []vrt.Dev) {
			if !seenV[v.Key] {
				seenV[v.Key] = true
				res.Violations = append(res.Violations, vrt.FoundViolation{Violation: v, Schedule: sched})
			}
		}
		base := &Scenario{Class: p.Name, Prog: p, Script: &env.Script{Steps: map[string]*env.StepScript{}}}
		pw, err := base.prepared()
		if err != nil {
			res.HarnessErrors = append(res.HarnessErrors, "schema "+cs.name+" does not prepare: "+err.Error())
			return res
		}
		var scope schema.Scope
		if cs.name == "stepref" {
			scope = pw.Input() // needs the step namespaces the engine applies
		} else {
			scope, err = independentScope(cs.yaml)
			if err != nil {
				res.HarnessErrors = append(res.HarnessErrors, "independent scope: "+err.Error())
				return res
			}
		}
		valid := 0
		// engine entry point for the YAML path
		dir, _ := os.MkdirTemp(scratchRoot(), "c19-")
		defer os.RemoveAll(dir)
		_ = os.WriteFile(filepath.Join(dir, "workflow.yaml"), []byte(p.YAML()), 0o644)
		for di, doc := range cs.docs() {
			if time.Now().After(deadline) {
				res.Exhaustive = false
				break
			}
			var norm any
			uns, uerr := scope.Unserialize(doc)
			if uerr == nil {
				norm, uerr = scope.Serialize(uns)
			}
			s := &Scenario{Class: p.Name, Prog: p, Script: base.Script, pw: pw}
			s.Name = fmt.Sprintf("%s/doc%d=%s", p.Name, di, short(canonStr(doc), 60))
			if in, ok := doc.(map[string]any); ok {
				s.Input = in
			}
			s.RawInput = doc
			if uerr == nil {
				valid++
				s.NormInput = canon(norm)
				s.Ref = evalProgram(p, s.Script, s.NormInput)
			} else {
				s.Ref = &RefRun{Prog: p, ResultErr: true, Unique: true, Outcome: map[string]*StepOutcome{}, St: map[string]Status{}}
			}
			var obs Obs
			body := runBody(s, &obs, -1)
			cfg := vrt.ExploreCfg{Bound: 1, Menu: menuTSE, Deadline: deadline,
				Check: func(x *vrt.Exec) []vrt.Violation {
					return c19Check(s, x, &obs, uerr)
				},
				Outcome: func(x *vrt.Exec) string { return outcomeString(&obs) }}
			st := vrt.Explore(cfg, body)
			res.Execs += st.Execs
			res.Points += st.Points
			res.Signatures += st.Signatures
			res.Outcomes += len(st.Outcomes)
			res.HarnessErrors = append(res.HarnessErrors, st.HarnessErrors...)
			if !st.Exhaustive {
				res.Exhaustive = false
			}
			for _, v := range st.Violations {
				add(v.Violation, v.Schedule)
			}
			// the same document through the engine API as YAML bytes (default schedule)
			var runID string
			var runData any
			var runErr error
			var w *env.World
			x := vrt.Run(vrt.Config{}, nil, func() {
				w = env.NewWorld(s.Script)
				env.W = w
				w.Phase = "prepare"
				eng, err := newEngine()
				if err != nil {
					runErr = err
					return
				}
				fc, err := loadfile.NewFileCacheUsingContext(dir, map[string]string{"workflow": "workflow.yaml"})
				if err == nil {
					err = fc.LoadContext()
				}
				if err != nil {
					runErr = err
					return
				}
				wf, err := eng.Parse(fc, "workflow")
				if err != nil {
					runErr = fmt.Errorf("parse: %w", err)
					return
				}
				w.Phase = "run"
				ctx, cancel := vrt.WithCancel("harness/c19", context.Background())
				defer cancel()
				runID, runData, _, runErr = wf.Run(ctx, toYAMLDoc(doc))
				vrt.Settle("harness/c19")
			})
			res.Execs++
			if x.Outcome().Panic != nil || x.Outcome().Deadlock {
				add(vrt.Violation{Key: p.Name + "/engine-run-crashes/" + fmt.Sprint(x.Outcome().Deadlock), Detail: fmt.Sprintf("Workflow.Run with input %s: %+v", canonStr(doc), x.Outcome())}, nil)
				continue
			}
			if runErr != nil && strings.HasPrefix(runErr.Error(), "parse:") {
				res.HarnessErrors = append(res.HarnessErrors, runErr.Error())
				continue
			}
			// YAML turns every scalar into a string; validity is judged on that form
			var ydoc any
			_ = yaml.Unmarshal(toYAMLDoc(doc), &ydoc)
			_, yerr := scope.Unserialize(stringify(canon(ydoc)))
			if yerr != nil {
				if runErr == nil {
					add(vrt.Violation{Key: p.Name + "/invalid-input-accepted/run", Detail: fmt.Sprintf("Workflow.Run accepted the invalid input document %s and returned %s %s", canonStr(doc), runID, canonStr(runData))}, nil)
				}
				for _, e := range w.Ledger {
					if e.Phase == "run" && e.Kind == "deploy-start" {
						add(vrt.Violation{Key: p.Name + "/deployed-before-refusal/run", Detail: fmt.Sprintf("Workflow.Run deployed a plugin although the input %s is invalid", canonStr(doc))}, nil)
					}
				}
			} else if uerr == nil && runErr == nil && obsOK(&obs) {
				if runID != obs.ID || !matchData(canon(obs.Data), canon(runData)) {
					add(vrt.Violation{Key: p.Name + "/run-differs-from-execute/" + runID, Detail: fmt.Sprintf("input %s: Workflow.Run (YAML) returned %s %s, Execute (values) returned %s %s", canonStr(doc), runID, canonStr(runData), obs.ID, canonStr(obs.Data))}, nil)
				}
			}
		}
		res.Nontrivial = valid
		res.Sample = map[string]any{"schema": cs.name, "documents": len(cs.docs()), "valid_documents": valid, "workflow": p.YAML()}
		return res
	}}
}

func obsOK(o *Obs) bool { return o.Returned && o.Err == nil }

// stringify turns scalars into strings, as the engine's YAML parser does.
func stringify(v any) any {
	switch x := v.(type) {
	case map[string]any:
		out := map[string]any{}
		for k, e := range x {
			out[k] = stringify(e)
		}
		return out
	case []any:
		out := make([]any, len(x))
		for i, e := range x {
			out[i] = stringify(e)
		}
		return out
	case nil:
		return nil
	case string:
		return x
	}
	return fmt.Sprint(v)
}

func c19Check(s *Scenario, x *vrt.Exec, o *Obs, invalid error) []vrt.Violation {
	var out []vrt.Violation
	if oc := x.Outcome(); oc.Panic != nil || oc.Deadlock {
		return append(out, oracleC07(s, x, o)...)
	}
	if !o.Returned {
		return nil
	}
	if invalid != nil {
		if o.Err == nil {
			out = append(out, viol(s, "invalid-input-accepted", "execute", fmt.Sprintf("input %s violates the input schema (%v) but the run returned %s", canonStr(s.RawInput), invalid, o.ID)))
		}
		for _, e := range o.W.Ledger {
			if e.Phase == "run" && (e.Kind == "deploy-start" || e.Kind == "step-start") {
				out = append(out, viol(s, "started-before-refusal", e.Kind, fmt.Sprintf("input %s is invalid, yet %s happened", canonStr(s.RawInput), e)))
				break
			}
		}
		return out
	}
	if o.Err != nil && errClass(o.Err) == "invalid-input" {
		out = append(out, viol(s, "valid-input-refused", "execute", fmt.Sprintf("input %s satisfies the input schema but was refused: %v", canonStr(s.RawInput), o.Err)))
		return out
	}
	out = append(out, oracleC02(s, x, o)...)
	out = append(out, oracleC03(s, x, o)...)
	out = append(out, oracleC08(s, x, o)...)
	// values derived from the workflow input must be in the schema's serialised normal form
	// (generic maps and lists), which is what expressions and functions are written against
	for _, e := range o.W.Ledger {
		if e.Kind == "stage-input" {
			if p := strictGeneric(e.Data2, "$"); p != "" {
				stage, _ := e.Data.(string)
				out = append(out, viol(s, "input-not-in-normal-form", e.Step+"."+stage, fmt.Sprintf("stage %s of step %s sees workflow input that is not the schema's serialised normal form: %s", stage, e.Step, p)))
				break
			}
		}
	}
	if o.Err == nil {
		if p := strictGeneric(o.Data, "$"); p != "" {
			out = append(out, viol(s, "output-not-in-normal-form", o.ID, "the returned output carries workflow input that is not in serialised normal form: "+p))
		}
	}
	if o.Err == nil {
		if p := plainData(o.Data, "$"); p != "" {
			out = append(out, viol(s, "output-not-serialised", o.ID, "the returned output is not in serialised (generic) form: "+p))
		}
	}
	return out
}

var engineScratch string

func scratchRoot() string {
	if engineScratch == "" {
		d := os.Getenv("VERIF_SCRATCH")
		if d == "" {
			d = "/var/tmp"
		}
		engineScratch = d
	}
	return engineScratch
}

func newEngine() (engine.WorkflowEngine, error) {
	engine.DefaultDeployerRegistry = env.NewRegistry()
	return engine.New(&config.Config{
		LocalDeployers: map[string]any{"builtin": map[string]any{"deployer_name": "scripted"}},
		Log:            log.Config{Level: log.LevelError, Destination: log.DestinationStdout, Stdout: io.Discard},
	})
}

func init() {
	register(&PropCheck{ID: "C19", Level: "model_checking",
		Rule:        "input schemas (int, ranged int, defaults, string, bool, list, float, nested object, reference to a step's input object) x an alphabet of input documents (valid, wrong type, missing, extra field, out of range, string forms); a two-step program whose steps both read $.input; Execute under all schedules within bound 1 and Workflow.Run with the document as YAML; validity and normal form come from the schema library applied to an independently built scope",
		Assumptions: append([]string{"the pluginsdk schema library's Unserialize/Serialize define validity and normal form (trusted)"}, commonAssumptions...),
		Budget:      budget(170*time.Second, 20*time.Minute),
		Units: func(tier string) []*Unit {
			var us []*Unit
			for _, cs := range c19Schemas() {
				us = append(us, c19Unit(cs))
			}
			return us
		}})
}

// strictGeneric accepts only map[string]any, map[any]any, []any and scalars.
func strictGeneric(v any, path string) string {
	switch x := v.(type) {
	case nil, bool, string, int, int8, int16, int32, int64, uint, uint8, uint16, uint32, uint64, float32, float64:
		return ""
	case map[string]any:
		for k, e := range x {
			if p := strictGeneric(e, path+"."+k); p != "" {
				return p
			}
		}
		return ""
	case map[any]any:
		for k, e := range x {
			if p := strictGeneric(e, fmt.Sprintf("%s.%v", path, k)); p != "" {
				return p
			}
		}
		return ""
	case []any:
		for i, e := range x {
			if p := strictGeneric(e, fmt.Sprintf("%s[%d]", path, i)); p != "" {
				return p
			}
		}
		return ""
	}
	return fmt.Sprintf("%s is a %T", path, v)
}
