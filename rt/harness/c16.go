package main

import (
	"fmt"
	"regexp"
	"sort"
	"strings"
	"time"

	"go.flow.arcalot.io/engine/internal/verif/env"
	"go.flow.arcalot.io/engine/internal/verif/vrt"
	"go.flow.arcalot.io/engine/workflow"
)

// ---------------------------------------------------------------------------------------
// C16: preparation is deterministic and insensitive to naming and ordering.

var inferredIDRe = regexp.MustCompile(`inferred_schema_[a-z0-9]{32}`)

// eraseIDs removes generated object identifiers; maps keyed by them become sorted lists.
func eraseIDs(v any) any {
	switch x := v.(type) {
	case map[string]any:
		generated := false
		for k := range x {
			if inferredIDRe.MatchString(k) {
				generated = true
			}
		}
		if generated {
			var items []string
			for _, e := range x {
				items = append(items, canonStr(eraseIDs(e)))
			}
			sort.Strings(items)
			out := make([]any, len(items))
			for i, s := range items {
				out[i] = s
			}
			return out
		}
		out := map[string]any{}
		for k, e := range x {
			out[k] = eraseIDs(e)
		}
		return out
	case []any:
		out := make([]any, len(x))
		for i, e := range x {
			out[i] = eraseIDs(e)
		}
		return out
	case string:
		return inferredIDRe.ReplaceAllString(x, "ID")
	}
	return v
}

// prepCanon is the canonical description of one preparation: verdict, graph, output schemas, namespaces.
func prepCanon(pw workflow.ExecutableWorkflow, err error, rename map[string]string) string {
	if err != nil {
		return "REJECTED"
	}
	back := func(s string) string {
		for from, to := range rename {
			s = strings.ReplaceAll(s, "steps."+to+".", "steps."+from+".")
			if strings.HasSuffix(s, "steps."+to) {
				s = strings.TrimSuffix(s, to) + from
			}
		}
		return s
	}
	var sb strings.Builder
	g := actualGraph(pw)
	var nodes, edges []string
	for n := range g.nodes {
		nodes = append(nodes, back(n))
	}
	for e := range g.edges {
		edges = append(edges, back(e.from)+"->"+back(e.to)+":"+e.kind)
	}
	sort.Strings(nodes)
	sort.Strings(edges)
	sb.WriteString("NODES " + strings.Join(nodes, ",") + "\nEDGES " + strings.Join(edges, ",") + "\n")
	outs := pw.OutputSchema()
	for _, id := range sortedKeys(outs) {
		ser, serr := outs[id].SchemaValue.SelfSerialize()
		if serr != nil {
			sb.WriteString("OUT " + id + " unserialisable\n")
			continue
		}
		sb.WriteString(fmt.Sprintf("OUT %s error=%v %s\n", id, outs[id].ErrorValue, canonStr(eraseIDs(canon(ser)))))
	}
	ns := pw.Namespaces()
	var nsl []string
	for k, objs := range ns {
		var ids []string
		for id := range objs {
			ids = append(ids, inferredIDRe.ReplaceAllString(id, "ID"))
		}
		sort.Strings(ids)
		nsl = append(nsl, back(k)+"="+strings.Join(ids, "+"))
	}
	sort.Strings(nsl)
	sb.WriteString("NS " + strings.Join(nsl, ",") + "\n")
	in, serr := pw.Input().SelfSerialize()
	if serr == nil {
		sb.WriteString("IN " + short(canonStr(eraseIDs(canon(in))), 4000) + "\n")
	}
	return sb.String()
}

var stepRefRe = regexp.MustCompile(`\$\.steps\.([A-Za-z0-9_]+)\b`)

func renameNode(n Node, m map[string]string) Node {
	rt := func(t string) string {
		return stepRefRe.ReplaceAllStringFunc(t, func(s string) string {
			id := strings.TrimPrefix(s, "$.steps.")
			if to, ok := m[id]; ok {
				return "$.steps." + to
			}
			return s
		})
	}
	switch v := n.(type) {
	case Ex:
		return Ex{rt(v.Text)}
	case OrDisabled:
		return OrDisabled{rt(v.Text)}
	case Opt:
		return Opt{v.Wait, rt(v.Text)}
	case Obj:
		o := Obj{}
		for _, f := range v.Fields {
			o.Fields = append(o.Fields, Field{f.Name, renameNode(f.Val, m)})
		}
		return o
	case List:
		l := List{}
		for _, it := range v.Items {
			l.Items = append(l.Items, renameNode(it, m))
		}
		return l
	case OneOf:
		o := OneOf{Disc: v.Disc}
		for _, f := range v.Opts {
			o.Opts = append(o.Opts, Field{f.Name, renameNode(f.Val, m)})
		}
		return o
	}
	return n
}

func renameProg(p *Program, m map[string]string) *Program {
	q := cloneProg(p)
	for i := range q.Steps {
		s := &q.Steps[i]
		if to, ok := m[s.ID]; ok {
			s.ID = to
		}
		s.Input, s.WaitFor, s.Deploy = renameNode(s.Input, m), renameNode(s.WaitFor, m), renameNode(s.Deploy, m)
		s.Enabled, s.StopIf, s.Items, s.Parallelism = renameNode(s.Enabled, m), renameNode(s.StopIf, m), renameNode(s.Items, m), renameNode(s.Parallelism, m)
	}
	for i := range q.Outputs {
		q.Outputs[i].Val = renameNode(q.Outputs[i].Val, m)
	}
	return q
}

func permutations(n int) [][]int {
	if n == 0 {
		return [][]int{{}}
	}
	var out [][]int
	for _, p := range permutations(n - 1) {
		for i := 0; i <= len(p); i++ {
			q := append(append(append([]int{}, p[:i]...), n-1), p[i:]...)
			out = append(out, q)
		}
	}
	return out
}

func c16Unit(p *Program, bound, maxExecs int) *Unit { return c16UnitV(p, bound, maxExecs, false) }

// c16UnitV: with verdictOnly the program may be one that preparation rejects; the verdict itself must
// then be the same under every map order, text permutation and renaming.
func c16UnitV(p *Program, bound, maxExecs int, verdictOnly bool) *Unit {
	name := "prepare/" + p.Name
	if verdictOnly {
		name = "prepare-verdict/" + p.Name
	}
	return &Unit{Name: name, Run: func(deadline time.Time) *UnitResult {
		res := &UnitResult{}
		var canonOut string
		body := func(q *Program, rename map[string]string) func() {
			text, files := q.YAML(), q.Files()
			return func() {
				env.W = env.NewWorld(&env.Script{})
				env.W.Phase = "prepare"
				pw, err := prepare(text, files)
				canonOut = prepCanon(pw, err, rename)
			}
		}
		// baseline: default (sorted) map order; record the map-iteration sites that are visited
		vrt.MapSeen = map[string]int{}
		vrt.MapPolicy = nil
		body(p, nil)()
		base := canonOut
		sites := vrt.MapSeen
		vrt.MapSeen = nil
		defer func() { vrt.MapPolicy = nil }()
		if base == "REJECTED" && !verdictOnly {
			res.HarnessErrors = append(res.HarnessErrors, "program "+p.Name+" is rejected")
			return res
		}
		// determinism: the same text prepared again gives the same result
		for i := 0; i < 3; i++ {
			body(p, nil)()
			res.Execs++
			if canonOut != base {
				what := firstDiffLine(base, canonOut)
				res.Violations = append(res.Violations, vrt.FoundViolation{Violation: vrt.Violation{Key: p.Name + "/repeated-preparation-differs/" + strings.SplitN(what, " ", 2)[0],
					Detail: fmt.Sprintf("preparing the same text twice gives different results:\n  %s\n  %s", short(lineOf(base, what), 1500), short(lineOf(canonOut, what), 1500))}})
				break
			}
		}
		type dev struct {
			site string
			alt  int
		}
		var devs []dev
		for _, k := range sortedKeys(sites) {
			n := sites[k]
			for alt := 1; alt <= vrt.MapPolicyAlternatives; alt++ {
				if n < 2 || (n == 2 && alt > 1) || (n == 3 && alt == 3) {
					continue
				}
				devs = append(devs, dev{k, alt})
			}
		}
		outcomes := map[string]bool{base: true}
		check := func(policy map[string]int) {
			vrt.MapPolicy = policy
			func() {
				defer func() {
					if r := recover(); r != nil {
						canonOut = fmt.Sprintf("PANIC %v", r)
					}
				}()
				body(p, nil)()
			}()
			res.Execs++
			outcomes[canonOut] = true
			if canonOut != base {
				what := firstDiffLine(base, canonOut)
				var ks []string
				for k, a := range policy {
					ks = append(ks, fmt.Sprintf("%s:%d", k, a))
				}
				sort.Strings(ks)
				key := p.Name + "/map-order-changes-preparation/" + strings.SplitN(what, " ", 2)[0] + "@" + ks[0][:strings.LastIndex(ks[0], ":")]
				dup := false
				for _, v := range res.Violations {
					if v.Key == key {
						dup = true
					}
				}
				if !dup {
					res.Violations = append(res.Violations, vrt.FoundViolation{Violation: vrt.Violation{Key: key,
						Detail: fmt.Sprintf("preparing the same text with map iteration order policy %v (site:alternative; 1 reversed, 2/3 rotated, 4 first two swapped) gives a different result:\n  default: %s\n  now:     %s", ks, short(lineOf(base, what), 1500), short(lineOf(canonOut, what), 1500))}})
				}
			}
		}
		res.Exhaustive = true
		res.BoundCompleted = 0
		for _, d := range devs {
			check(map[string]int{d.site: d.alt})
		}
		res.BoundCompleted = 1
		if capBound(bound) >= 2 {
		pairs:
			for i, d1 := range devs {
				if d1.alt > 2 {
					continue
				}
				for _, d2 := range devs[i+1:] {
					if d2.alt > 2 || d2.site == d1.site {
						continue
					}
					if time.Now().After(deadline) || res.Execs > maxExecs {
						res.Exhaustive = false
						break pairs
					}
					check(map[string]int{d1.site: d1.alt, d2.site: d2.alt})
				}
			}
			if res.Exhaustive {
				res.BoundCompleted = 2
			}
		}
		// every site reversed at once
		all := map[string]int{}
		for k := range sites {
			all[k] = 1
		}
		check(all)
		vrt.MapPolicy = nil
		res.Signatures = res.Execs
		res.Outcomes = len(outcomes)
		res.Points = int64(len(devs))
		st := struct{ MaxChoices int }{len(sites)}
		seen := map[string]bool{}
		add := func(key, detail string) {
			if !seen[key] {
				seen[key] = true
				res.Violations = append(res.Violations, vrt.FoundViolation{Violation: vrt.Violation{Key: key, Detail: detail}})
			}
		}
		// text-level variants: step and output order permutations, consistent renamings
		if len(p.Steps) <= 4 {
			for _, perm := range permutations(len(p.Steps)) {
				q := cloneProg(p)
				for i, j := range perm {
					q.Steps[i] = p.Steps[j]
				}
				for _, operm := range permutations(len(p.Outputs)) {
					if len(p.Outputs) > 3 {
						operm = nil
					}
					q2 := cloneProg(q)
					for i, j := range operm {
						q2.Outputs[i] = q.Outputs[j]
					}
					body(q2, nil)()
					res.Execs++
					if canonOut != base {
						what := firstDiffLine(base, canonOut)
						add(p.Name+"/text-order-changes-preparation/"+strings.SplitN(what, " ", 2)[0], fmt.Sprintf("reordering steps/outputs in the text (steps %v outputs %v) changes the preparation:\n  %s\n  %s", perm, operm, short(lineOf(base, what), 1200), short(lineOf(canonOut, what), 1200)))
					}
					if len(p.Outputs) > 3 {
						break
					}
				}
			}
		}
		pool := []string{"zeta", "alpha", "m_1", "b", "a"}
		var ids []string
		for _, s := range p.Steps {
			ids = append(ids, s.ID)
		}
		if len(ids) <= 4 && len(ids) > 0 {
			// further spellings: upper case, camel case, digits, one name a prefix of another
			pool2 := []string{"Alpha", "stepTwo", "X_9", "ab", "abc"}
			for r := 0; r < 5; r++ {
				m := map[string]string{}
				for i, id := range ids {
					if r < 3 {
						m[id] = pool[(i+r)%len(pool)] + fmt.Sprint(r)
					} else {
						m[id] = pool2[(i+r)%len(pool2)]
					}
				}
				q := renameProg(p, m)
				body(q, m)()
				res.Execs++
				if canonOut != base {
					what := firstDiffLine(base, canonOut)
					add(p.Name+"/renaming-changes-preparation/"+strings.SplitN(what, " ", 2)[0], fmt.Sprintf("renaming the steps %v changes more than the names:\n  %s\n  %s", m, short(lineOf(base, what), 1200), short(lineOf(canonOut, what), 1200)))
				}
			}
		}
		res.Sample = map[string]any{"program": p.Name, "map_choice_points_default": st.MaxChoices}
		return res
	}}
}

func firstDiffLine(a, b string) string {
	la, lb := strings.Split(a, "\n"), strings.Split(b, "\n")
	for i := range la {
		if i >= len(lb) || la[i] != lb[i] {
			return strings.SplitN(la[i], " ", 3)[0] + " " + fmt.Sprint(i)
		}
	}
	return "LEN 0"
}

func lineOf(s, what string) string {
	var idx int
	fmt.Sscanf(strings.SplitN(what, " ", 2)[1], "%d", &idx)
	ls := strings.Split(s, "\n")
	if idx < len(ls) {
		return ls[idx]
	}
	return ""
}

func init() {
	register(&PropCheck{ID: "C16", Level: "model_checking",
		Rule:        "Prepare re-run with every range-over-map / reflect.MapKeys site of the engine packages (rewritten at build time) forced, one site at a time and in pairs, to iterate reversed / rotated / with the first two keys swapped on every visit, and with all sites reversed at once; plus repeated preparation, all permutations of step and output order in the text and consistent renamings; canonicalised DAG, output schemas, namespaces and input scope must equal the default preparation's; the same for the verdict on single-point corruptions of 5 programs (ill-formed programs must be rejected under every order); states = preparations compared",
		Assumptions: []string{"map iteration inside third-party libraries (dgraph, pluginsdk schema, expressions) is not controlled; object identifiers generated at random are erased before comparison", "programs are limited to the generator's subset of the workflow language"},
		Budget:      budget(170*time.Second, 25*time.Minute),
		Units: func(tier string) []*Unit {
			var us []*Unit
			ps := append(append([]*Program{}, catalogue()...), tagPrograms()...)
			ps = append(ps, progLoop(2, 2, subProgErr(), "loop2"))
			en := enumPrograms(3)
			for i := 0; i < len(en); i += tierBound(tier, 97, 23) {
				ps = append(ps, en[i])
			}
			seen := map[string]bool{}
			for _, p := range ps {
				if seen[p.Name] {
					continue
				}
				seen[p.Name] = true
				us = append(us, c16Unit(p, tierBound(tier, 2, 3), tierBound(tier, 2500, 200000)))
			}
			// ill-formed and varied programs: the verdict (and, if accepted, the result) must not depend on
			// map order or text order either
			for _, p := range []*Program{progFanIn(), progWaitStarted(), progStopProducer(), progEnabled(), progForeach(subProg(), 2)} {
				for i, c := range corruptions(p) {
					if tier != "thorough" && i%2 == 1 && !strings.Contains(c.name, "literal") && !strings.Contains(c.name, "removed") {
						continue
					}
					q := c.prog
					q.Name = fmt.Sprintf("%s#%d", p.Name, i)
					us = append(us, c16UnitV(q, 1, tierBound(tier, 800, 20000), true))
				}
			}
			return us
		}})
}
