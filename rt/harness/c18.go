package main

import (
	"fmt"
	"math"
	"os"
	"os/exec"
	"reflect"
	"sort"
	"strings"
	"time"
	"unicode/utf8"

	"go.flow.arcalot.io/engine/internal/builtinfunctions"
	"go.flow.arcalot.io/engine/internal/verif/vrt"
	"go.flow.arcalot.io/expressions"
	"go.flow.arcalot.io/pluginsdk/schema"
)

// ---------------------------------------------------------------------------------------
// C18: built-in functions over a boundary alphabet (exhaustive enumeration of argument tuples)

var floatAlphabet = func() []float64 {
	base := []float64{0, 1, 0.5, 1.5, 2.5, 1e-7, 1e21, 9007199254740991, 9007199254740992, 9007199254740993,
		9223372036854775807, 9223372036854774784, 9223372036854775808, 1.8446744073709552e19, math.MaxFloat64, math.SmallestNonzeroFloat64,
		3.999999999999999, 123456.789, 4611686018427387904, math.Inf(1)}
	out := []float64{math.NaN(), math.Copysign(0, -1)}
	for _, b := range base {
		out = append(out, b, -b)
	}
	return out
}()

// 2^31 is left out on purpose: as a formatting precision it makes strconv build a 2 GB string (resource exhaustion, not logic)
var intAlphabet = []int64{0, 1, -1, 2, 10, -10, 17, 400, -(1 << 31), 1<<53 + 1, math.MaxInt64, math.MinInt64, math.MaxInt64 - 1, math.MinInt64 + 1}

var stringAlphabet = []string{"", "a", "abc", "ABC", "a,b,,c", ",", "ß", "İ", "ǅ", "ÀÉ", "héllo wörld", " 1", "1", "+1", "-1", "-0", "007", "1e3", "0x1p-2", "١",
	"9223372036854775807", "9223372036854775808", "-9223372036854775808", "-9223372036854775809", "99999999999999999999", "1.5", "-1.5", "NaN", "Inf", "-inf", "1_000", ".5", "5.",
	"true", "false", "True", "FALSE", "t", "F", "0", "yes", "T", "b", "e", "E", "f", "g", "G", "x", "X", "%", "\x00", "a\nb", "nonexistent-env-var-xyz", "PATH", "HOME"}

// the three maps are objects of the same name with different content (type handlers must not confuse them)
var anyAlphabet = []any{nil, int64(3), "s", true, 1.5, []any{int64(1), "x"}, map[string]any{"k": int64(1)}, []any{},
	map[string]any{"k": "str"}, map[string]any{"j": 1.5, "k": []any{"a"}}}

var listAlphabet = [][]any{{}, {int64(1)}, {int64(1), int64(2), int64(3)}, {"a", "b"}, {[]any{int64(1)}, []any{}}, {map[string]any{"a": int64(1)}, map[string]any{"a": int64(2)}}, {int64(1), "mixed", nil}}

// argsFor returns the alphabet of Go values for one parameter type, filtered by the parameter's own schema.
func argsFor(t schema.Type) []any {
	var cand []any
	switch t.TypeID() {
	case schema.TypeIDFloat:
		for _, f := range floatAlphabet {
			cand = append(cand, f)
		}
	case schema.TypeIDInt:
		for _, i := range intAlphabet {
			cand = append(cand, i)
		}
	case schema.TypeIDString:
		for _, s := range stringAlphabet {
			cand = append(cand, s)
		}
	case schema.TypeIDBool:
		cand = []any{true, false}
	case schema.TypeIDList:
		for _, l := range listAlphabet {
			cand = append(cand, l)
		}
	case schema.TypeIDAny:
		cand = anyAlphabet
	default:
		return nil
	}
	var out []any
	for _, c := range cand {
		if err := t.Validate(c); err == nil {
			out = append(out, c)
		}
	}
	return out
}

func showArg(v any) string {
	switch x := v.(type) {
	case float64:
		return fmt.Sprintf("%v(0x%x)", x, math.Float64bits(x))
	case string:
		return fmt.Sprintf("%q", x)
	}
	return fmt.Sprintf("%v", v)
}

func showArgs(args []any) string {
	var p []string
	for _, a := range args {
		p = append(p, showArg(a))
	}
	return "(" + strings.Join(p, ", ") + ")"
}

func sameResult(a, b any) bool {
	fa, oka := a.(float64)
	fb, okb := b.(float64)
	if oka && okb {
		return math.Float64bits(fa) == math.Float64bits(fb) || (math.IsNaN(fa) && math.IsNaN(fb))
	}
	return reflect.DeepEqual(a, b)
}

type callResult struct {
	val      any
	err      error
	panicked string
}

func safeCall(f schema.CallableFunction, args []any) (r callResult) {
	defer func() {
		if p := recover(); p != nil {
			r.panicked = fmt.Sprint(p)
		}
	}()
	r.val, r.err = f.Call(args)
	return r
}

// typeOfArg gives the schema type a literal argument has (for dynamic output derivation).
func typeOfArg(v any) schema.Type {
	switch x := v.(type) {
	case nil:
		return schema.NewAnySchema()
	case int64:
		return schema.NewIntSchema(nil, nil, nil)
	case float64:
		return schema.NewFloatSchema(nil, nil, nil)
	case string:
		return schema.NewStringSchema(nil, nil, nil)
	case bool:
		return schema.NewBoolSchema()
	case []any:
		if len(x) == 0 {
			return schema.NewListSchema(schema.NewAnySchema(), nil, nil)
		}
		first := typeOfArg(x[0])
		for _, it := range x[1:] {
			if typeOfArg(it).TypeID() != first.TypeID() {
				return schema.NewListSchema(schema.NewAnySchema(), nil, nil)
			}
		}
		return schema.NewListSchema(first, nil, nil)
	case map[string]any:
		props := map[string]*schema.PropertySchema{}
		for k, e := range x {
			props[k] = schema.NewPropertySchema(typeOfArg(e), nil, true, nil, nil, nil, nil, nil)
		}
		return schema.NewObjectSchema("lit", props)
	}
	return schema.NewAnySchema()
}

func c18Unit(name string, f schema.CallableFunction) *Unit {
	return &Unit{Name: "function/" + name, Run: func(deadline time.Time) *UnitResult {
		res := &UnitResult{Exhaustive: true}
		seen := map[string]bool{}
		add := func(clause, key, detail string) {
			k := name + "/" + clause + "/" + key
			if !seen[k] {
				seen[k] = true
				res.Violations = append(res.Violations, vrt.FoundViolation{Violation: vrt.Violation{Key: k, Detail: detail}})
			}
		}
		params := f.Parameters()
		alph := make([][]any, len(params))
		for i, p := range params {
			alph[i] = argsFor(p)
			if len(alph[i]) == 0 {
				res.HarnessErrors = append(res.HarnessErrors, fmt.Sprintf("no alphabet for parameter %d of %s (%s)", i, name, p.TypeID()))
				return res
			}
		}
		if name == "floatToFormattedString" {
			// precisions that make strconv build gigabytes of digits are probed in a memory-limited child (below)
			alph[2] = []any{int64(-1), int64(0), int64(1), int64(17), int64(400), int64(math.MinInt64), int64(-(1 << 31))}
			for _, prec := range []int64{math.MaxInt64, 1 << 40} {
				res.Execs++
				if out, died := c18ProbeChild(prec); died {
					add("kills-process", "precision>=2^40", fmt.Sprintf("floatToFormattedString(1.5, \"f\", %d) does not return: the process dies building the digits (%s)", prec, short(out, 160)))
				}
			}
		}
		if name == "readFile" {
			tmp, _ := os.CreateTemp("", "c18-*.txt")
			tmp.WriteString("héllo\n")
			tmp.Close()
			defer os.Remove(tmp.Name())
			alph[0] = append(alph[0], tmp.Name())
		}
		if name == "getEnvVar" {
			os.Setenv("C18_SET_VAR", "value")
			alph[0] = append(alph[0], "C18_SET_VAR")
		}
		idx := make([]int, len(params))
		okResults := 0
		type pair struct {
			in  float64
			out int64
		}
		var f2i []pair
		for {
			args := make([]any, len(params))
			for i := range params {
				args[i] = alph[i][idx[i]]
			}
			res.Execs++
			r1 := safeCall(f, args)
			r2 := safeCall(f, args)
			switch {
			case r1.panicked != "":
				add("panic", classOfArgs(args), fmt.Sprintf("%s%s panics: %s", name, showArgs(args), short(r1.panicked, 200)))
			case (r1.err == nil) != (r2.err == nil) || (r1.err == nil && !sameResult(r1.val, r2.val)):
				add("nondeterministic", classOfArgs(args), fmt.Sprintf("%s%s gave %v then %v", name, showArgs(args), r1.val, r2.val))
			case r1.err == nil:
				okResults++
				argTypes := make([]schema.Type, len(args))
				for i := range args {
					argTypes[i] = params[i]
					if name == "bindConstants" {
						argTypes[i] = typeOfArg(args[i])
					}
				}
				outT, _, err := f.Output(argTypes)
				if err != nil {
					if name != "bindConstants" {
						add("no-output-type", classOfArgs(args), fmt.Sprintf("%s: Output() fails: %v", name, err))
					}
				} else if verr := outT.Validate(r1.val); verr != nil {
					if _, uerr := outT.Unserialize(r1.val); uerr != nil {
						add("result-outside-declared-type", classOfArgs(args), fmt.Sprintf("%s%s = %s which is not a value of the declared result type %s: %v", name, showArgs(args), showArg(r1.val), outT.TypeID(), short(verr.Error(), 200)))
					}
				}
				c18Laws(name, args, r1.val, add)
				if name == "floatToInt" {
					f2i = append(f2i, pair{args[0].(float64), r1.val.(int64)})
				}
			}
			// next tuple
			i := 0
			for i < len(idx) {
				idx[i]++
				if idx[i] < len(alph[i]) {
					break
				}
				idx[i] = 0
				i++
			}
			if i == len(idx) {
				break
			}
			if time.Now().After(deadline) {
				res.Exhaustive = false
				break
			}
		}
		if name == "floatToInt" {
			sort.Slice(f2i, func(i, j int) bool { return f2i[i].in < f2i[j].in })
			for i := 1; i < len(f2i); i++ {
				if f2i[i].out < f2i[i-1].out {
					add("law-monotonic", "floatToInt", fmt.Sprintf("floatToInt is not monotonic: floatToInt(%v)=%d but floatToInt(%v)=%d", f2i[i-1].in, f2i[i-1].out, f2i[i].in, f2i[i].out))
					break
				}
			}
		}
		c18ExpressionLevel(name, f, alph, add, res)
		res.Nontrivial = okResults
		res.Outcomes = okResults
		res.Signatures = res.Execs
		res.BoundCompleted = 1
		res.Sample = map[string]any{"function": name, "parameters": len(params), "argument_tuples": res.Execs, "non_error_results": okResults}
		return res
	}}
}

// classOfArgs: a coarse, stable class of an argument tuple for violation keys.
func classOfArgs(args []any) string {
	var p []string
	for _, a := range args {
		switch x := a.(type) {
		case float64:
			switch {
			case math.IsNaN(x):
				p = append(p, "NaN")
			case math.IsInf(x, 0):
				p = append(p, "Inf")
			case math.Abs(x) >= 9.2e18:
				p = append(p, "float>=2^63")
			case x != math.Trunc(x):
				p = append(p, "fraction")
			default:
				p = append(p, "float")
			}
		case int64:
			if x == math.MinInt64 || x == math.MaxInt64 {
				p = append(p, "int-extreme")
			} else {
				p = append(p, "int")
			}
		case string:
			p = append(p, "string:"+short(fmt.Sprintf("%q", x), 14))
		default:
			p = append(p, fmt.Sprintf("%T", a))
		}
	}
	return strings.Join(p, ",")
}

func c18Laws(name string, args []any, val any, add func(clause, key, detail string)) {
	fns := builtinfunctions.GetFunctions()
	call := func(fn string, a ...any) (any, error) {
		r := safeCall(fns[fn], a)
		if r.panicked != "" {
			return nil, fmt.Errorf("panic: %s", r.panicked)
		}
		return r.val, r.err
	}
	switch name {
	case "floatToInt":
		a := args[0].(float64)
		got := val.(int64)
		switch {
		case a >= 9223372036854775808.0:
			if got != math.MaxInt64 {
				add("law-saturates", "high", fmt.Sprintf("floatToInt(%v) = %d, must saturate at %d", a, got, int64(math.MaxInt64)))
			}
		case a <= -9223372036854775808.0:
			if got != math.MinInt64 {
				add("law-saturates", "low", fmt.Sprintf("floatToInt(%v) = %d, must saturate at %d", a, got, int64(math.MinInt64)))
			}
		default:
			if float64(got) != math.Trunc(a) {
				add("law-truncates", "trunc", fmt.Sprintf("floatToInt(%v) = %d, truncation toward zero gives %v", a, got, math.Trunc(a)))
			}
		}
	case "intToString":
		back, err := call("stringToInt", val)
		if err != nil || back != args[0] {
			add("law-roundtrip", "int", fmt.Sprintf("stringToInt(intToString(%v)) = %v, %v", args[0], back, err))
		}
	case "boolToString":
		back, err := call("stringToBool", val)
		if err != nil || back != args[0] {
			add("law-roundtrip", "bool", fmt.Sprintf("stringToBool(boolToString(%v)) = %v, %v", args[0], back, err))
		}
	case "floatToString":
		a := args[0].(float64)
		if !math.IsNaN(a) && !math.IsInf(a, 0) {
			back, err := call("stringToFloat", val)
			if err != nil || !sameResult(back, a) {
				add("law-roundtrip", "float", fmt.Sprintf("stringToFloat(floatToString(%s)) = %v, %v (string %q)", showArg(a), back, err, val))
			}
		}
	case "intToFloat":
		i := args[0].(int64)
		fv := val.(float64)
		if i > -(1<<53) && i < 1<<53 && int64(fv) != i {
			add("law-exact", "intToFloat", fmt.Sprintf("intToFloat(%d) = %v", i, fv))
		}
	case "toLower", "toUpper":
		again, err := call(name, val)
		if err != nil || again != val {
			add("law-idempotent", name, fmt.Sprintf("%s(%s(%q)) = %q, not %q", name, name, args[0], again, val))
		}
	case "splitString":
		s, sep := args[0].(string), args[1].(string)
		parts, _ := val.([]string)
		if sep == "" && utf8.ValidString(s) {
			// the empty separator lies between any two characters: the parts are the characters
			var want []string
			for _, r := range s {
				want = append(want, string(r))
			}
			if strings.Join(parts, "\x00") != strings.Join(want, "\x00") || len(parts) != len(want) {
				add("law-split", "empty-separator", fmt.Sprintf("splitString(%q,\"\") = %q, expected the characters %q", s, parts, want))
			}
		}
		if sep != "" {
			if strings.Join(parts, sep) != s {
				add("law-split", "join", fmt.Sprintf("joining splitString(%q,%q)=%q does not give the input back", s, sep, parts))
			}
			for _, p := range parts {
				if strings.Contains(p, sep) {
					add("law-split", "contains-separator", fmt.Sprintf("a part of splitString(%q,%q) contains the separator", s, sep))
				}
			}
		}
	case "ceil", "floor", "round", "abs":
		x, ok := args[0].(float64)
		y, ok2 := val.(float64)
		if ok && ok2 && !math.IsNaN(x) && !math.IsInf(x, 0) {
			switch name {
			case "ceil":
				if y < x || (math.Abs(x) < 1<<52 && y-1 >= x) || (math.Abs(x) >= 1<<52 && y != x) || y != math.Trunc(y) {
					add("law-ceil", "ceil", fmt.Sprintf("ceil(%v) = %v", x, y))
				}
			case "floor":
				if y > x || (math.Abs(x) < 1<<52 && y+1 <= x) || (math.Abs(x) >= 1<<52 && y != x) || y != math.Trunc(y) {
					add("law-floor", "floor", fmt.Sprintf("floor(%v) = %v", x, y))
				}
			case "round":
				if math.Abs(y-x) > 0.5 || y != math.Trunc(y) {
					add("law-round", "round", fmt.Sprintf("round(%v) = %v", x, y))
				}
			case "abs":
				if y < 0 || (y != x && y != -x) {
					add("law-abs", "abs", fmt.Sprintf("abs(%v) = %v", x, y))
				}
			}
		}
	case "bindConstants":
		items := args[0].([]any)
		out, ok := val.([]any)
		if !ok || len(out) != len(items) {
			add("law-bind", "length", fmt.Sprintf("bindConstants over %d items returned %v", len(items), val))
			return
		}
		for i, o := range out {
			m, ok := o.(map[string]any)
			if !ok || !reflect.DeepEqual(m["item"], items[i]) || !reflect.DeepEqual(m["constant"], args[1]) || len(m) != 2 {
				add("law-bind", "pairing", fmt.Sprintf("bindConstants item %d is %v, expected {item:%v constant:%v}", i, o, items[i], args[1]))
			}
		}
	}
}

// c18ExpressionLevel: for one-parameter functions, the type the expression library derives for
// f($.x) must accept the value it evaluates to.
func c18ExpressionLevel(name string, f schema.CallableFunction, alph [][]any, add func(clause, key, detail string), res *UnitResult) {
	if len(alph) != 1 {
		return
	}
	p := f.Parameters()[0]
	scope := schema.NewScopeSchema(schema.NewObjectSchema("root", map[string]*schema.PropertySchema{
		"x": schema.NewPropertySchema(p, nil, true, nil, nil, nil, nil, nil),
	}))
	ex, err := expressions.New(name + "($.x)")
	if err != nil {
		return
	}
	fnSchemas := map[string]schema.Function{}
	for k, v := range builtinfunctions.GetFunctions() {
		fnSchemas[k] = v
	}
	t, err := ex.Type(scope, fnSchemas, nil)
	if err != nil {
		add("expression-type", "type-error", fmt.Sprintf("%s($.x) has no type: %v", name, err))
		return
	}
	for _, a := range alph[0] {
		res.Execs++
		var val any
		var evalErr error
		func() {
			defer func() {
				if r := recover(); r != nil {
					evalErr = fmt.Errorf("panic: %v", r)
					add("expression-panic", classOfArgs([]any{a}), fmt.Sprintf("evaluating %s($.x) with x=%s panics: %v", name, showArg(a), r))
				}
			}()
			val, evalErr = ex.Evaluate(map[string]any{"x": a}, builtinfunctions.GetFunctions(), nil)
		}()
		if evalErr != nil {
			continue
		}
		if verr := t.Validate(val); verr != nil {
			if _, uerr := t.Unserialize(val); uerr != nil {
				add("expression-type-vs-value", classOfArgs([]any{a}), fmt.Sprintf("%s($.x) is typed %s but evaluates to %s for x=%s", name, t.TypeID(), showArg(val), showArg(a)))
			}
		}
	}
}

func init() {
	register(&PropCheck{ID: "C18", Level: "exploration",
		Rule:        "every built-in function x every argument tuple from per-type boundary alphabets (floats incl. NaN, infinities, signed zero, 2^53 and 2^63 neighbourhoods; extreme ints; empty, non-ASCII, numeric look-alike strings; nested and mixed lists) filtered by the parameter's own schema; a case is non-trivial when the call returns a value (not an error)",
		Assumptions: []string{"finite alphabets only: values outside them are not covered", "readFile / getEnvVar are exercised on one temporary file and one set / unset variable", "the expressions library and pluginsdk schema validation are trusted"},
		Budget:      budget(120*time.Second, 10*time.Minute),
		Units: func(tier string) []*Unit {
			var us []*Unit
			fns := builtinfunctions.GetFunctions()
			for _, name := range sortedKeys(fns) {
				us = append(us, c18Unit(name, fns[name]))
			}
			return us
		}})
}

// c18ProbeChild calls floatToFormattedString with a huge precision in a child process whose address
// space is limited, so that an unbounded allocation ends quickly. It reports whether the child died.
func c18ProbeChild(prec int64) (string, bool) {
	self, err := os.Executable()
	if err != nil {
		return "", false
	}
	cmd := exec.Command("sh", "-c", fmt.Sprintf("ulimit -v 1500000; exec %s probe-format %d", self, prec))
	done := make(chan struct{})
	var out []byte
	go func() { out, err = cmd.CombinedOutput(); close(done) }()
	select {
	case <-done:
	case <-time.After(60 * time.Second):
		_ = cmd.Process.Kill()
		<-done
		return "timeout", true
	}
	if err != nil {
		first := strings.SplitN(string(out), "\n", 3)
		return strings.Join(first[:minInt(2, len(first))], " | "), true
	}
	return string(out), false
}

func minInt(a, b int) int {
	if a < b {
		return a
	}
	return b
}

func probeFormat(prec int64) {
	f := builtinfunctions.GetFunctions()["floatToFormattedString"]
	r := safeCall(f, []any{1.5, "f", prec})
	if r.panicked != "" {
		fmt.Println("panic:", r.panicked)
		os.Exit(3)
	}
	fmt.Println("returned", r.err)
}
