package main

import (
	"fmt"
	"sort"
	"strings"

	"go.flow.arcalot.io/engine/internal/verif/env"
	"go.flow.arcalot.io/engine/workflow"
)

// Scenario is one closed system: program, environment script, input.
type Scenario struct {
	Name   string
	Class  string // program family (used in known-finding keys)
	Prog   *Program
	Script *env.Script
	Input  map[string]any
	RawInput  any // if set, this (possibly invalid, possibly non-map) document is passed to Execute instead of Input
	NormInput any // if set, the schema-normalised input the reference and the trace oracles work with
	ParseOnly bool // the execution under exploration is Prepare (with Script applied to the schema probes), not Execute
	MayReject bool // preparation may refuse the program (then there is nothing to run and nothing to check)
	Ref    *RefRun
	pw     workflow.ExecutableWorkflow
	prepErr error
	sch    map[string]map[string]stageSchemas
}

func (s *Scenario) String() string {
	return fmt.Sprintf("%s script=%s input=%s", s.Name, s.Script, canonStr(s.Input))
}

func (s *Scenario) prepared() (workflow.ExecutableWorkflow, error) {
	if s.pw == nil && s.prepErr == nil {
		saved := env.W
		env.W = env.NewWorld(&env.Script{})
		env.W.Phase = "prepare"
		s.pw, s.prepErr = prepare(s.Prog.YAML(), s.Prog.Files())
		env.W = saved
	}
	return s.pw, s.prepErr
}

func sv(step string) string { return "$.steps." + step + ".outputs.success.v" }

func pstep(id string, input Node) Step { return Step{ID: id, Input: input} }

// ---------------------------------------------------------------------------------------
// catalogue of program shapes

func progSingle() *Program {
	return &Program{Name: "single", Steps: []Step{pstep("a", O("v", E("$.input.n")))},
		Outputs: []Output{{"success", O("r", E(sv("a")))}}}
}

func progChain(n int) *Program {
	p := &Program{Name: fmt.Sprintf("chain%d", n)}
	prev := "$.input.n"
	for i := 0; i < n; i++ {
		id := string(rune('a' + i))
		p.Steps = append(p.Steps, pstep(id, O("v", E(prev))))
		prev = sv(id)
	}
	p.Outputs = []Output{{"success", O("r", E(prev))}}
	return p
}

func progFanIn() *Program {
	return &Program{Name: "fanin", Steps: []Step{
		pstep("a", O("v", E("$.input.n"))),
		pstep("b", O("v", I(10))),
		{ID: "c", Input: O("v", E(sv("a")), "s", E("$.steps.b.outputs.success.s")), WaitFor: E("$.steps.b.outputs.success")},
	}, Outputs: []Output{{"success", O("r", E(sv("c")), "s", E("$.steps.c.outputs.success.s"))}}}
}

func progDiamond() *Program {
	return &Program{Name: "diamond", Steps: []Step{
		pstep("a", O("v", E("$.input.n"))),
		pstep("b", O("v", E(sv("a")))),
		pstep("c", O("v", E(sv("a")), "s", Str("x"))),
		pstep("d", O("v", E(sv("b")), "s", E("$.steps.c.outputs.success.s"))),
	}, Outputs: []Output{{"success", O("r", E(sv("d")), "s", E("$.steps.d.outputs.success.s"))}}}
}

// every engine-generated output is routed into a workflow output of its own
func progMultiOut() *Program {
	return &Program{Name: "multiout", Steps: []Step{pstep("a", O("v", E("$.input.n")))},
		Outputs: []Output{
			{"success", O("r", E(sv("a")))},
			{"error", O("e", E("$.steps.a.outputs.error.error"), "v", E("$.steps.a.outputs.error.v"))},
			{"crashed", O("c", E("$.steps.a.crashed.error.output"))},
			{"nodeploy", O("d", E("$.steps.a.deploy_failed.error.error"))},
		}}
}

func progMultiOut2() *Program {
	return &Program{Name: "multiout2", Steps: []Step{
		pstep("a", O("v", E("$.input.n"))),
		pstep("b", O("v", E(sv("a")))),
	}, Outputs: []Output{
		{"success", O("r", E(sv("b")))},
		{"a_failed", O("e", E("$.steps.a.outputs.error"))},
		{"b_failed", O("e", E("$.steps.b.outputs.error.error"))},
		{"b_crashed", O("c", E("$.steps.b.crashed.error"))},
	}}
}

func progWaitStarted() *Program {
	return &Program{Name: "waitstarted", Steps: []Step{
		pstep("a", O("v", E("$.input.n"))),
		{ID: "b", Input: O("v", I(3)), WaitFor: E("$.steps.a.starting.started")},
	}, Outputs: []Output{{"success", O("r", E(sv("b")), "q", E(sv("a")))}}}
}

func progEnabled() *Program {
	return &Program{Name: "enabled", Steps: []Step{
		{ID: "a", Input: O("v", E("$.input.n")), Enabled: E("$.input.flag")},
	}, Outputs: []Output{
		{"success", O("r", OrDisabled{"$.steps.a.outputs.success"})},
	}}
}

func progEnabledChain() *Program {
	return &Program{Name: "enabledchain", Steps: []Step{
		{ID: "a", Input: O("v", E("$.input.n")), Enabled: E("$.input.flag")},
		pstep("b", O("v", E(sv("a")))),
	}, Outputs: []Output{
		{"success", O("r", E(sv("b")))},
		{"skipped", O("m", E("$.steps.a.disabled.output.message"), "e", E("$.steps.a.enabling.resolved.enabled"))},
	}}
}

func progStopInput() *Program {
	return &Program{Name: "stopinput", Steps: []Step{
		{ID: "a", Input: O("v", E("$.input.n")), StopIf: E("$.input.flag")},
	}, Outputs: []Output{
		{"success", O("r", E(sv("a")))},
		{"closed", O("c", E("$.steps.a.closed.result.cancelled"))},
	}}
}

func progStopProducer() *Program {
	return &Program{Name: "stopproducer", Steps: []Step{
		pstep("p", O("v", E("$.input.n"))),
		{ID: "a", Input: O("v", E(sv("p"))), StopIf: E("$.steps.p.outputs.success")},
	}, Outputs: []Output{
		{"success", O("r", E(sv("a")))},
		{"cancelled", O("c", E("$.steps.a.outputs.cancelled_early"))},
		{"closed", O("c", E("$.steps.a.closed.result"))},
	}}
}

func progDeployExpr() *Program {
	return &Program{Name: "deployexpr", Steps: []Step{
		{ID: "a", Input: O("v", E("$.input.n")), Deploy: O("deployer_name", Str("scripted"), "tag", E("$.input.s"))},
	}, Outputs: []Output{{"success", O("r", E(sv("a")))}}}
}

func progOptional() *Program {
	return &Program{Name: "optional", Steps: []Step{
		pstep("a", O("v", E("$.input.n"))),
		pstep("b", O("v", I(1))),
	}, Outputs: []Output{{"success", O("r", E(sv("b")), "w", Opt{true, sv("a")})}}}
}

func progSoftOptional() *Program {
	return &Program{Name: "softoptional", Steps: []Step{
		pstep("a", O("v", E("$.input.n"))),
		pstep("b", O("v", I(1))),
	}, Outputs: []Output{{"success", O("r", E(sv("b")), "w", Opt{false, sv("a")})}}}
}

func progOptionalInput() *Program {
	return &Program{Name: "optionalinput", Steps: []Step{
		pstep("a", O("v", E("$.input.n"))),
		pstep("c", O("v", I(2), "s", Opt{true, "$.steps.a.outputs.success.s"})),
	}, Outputs: []Output{{"success", O("r", E(sv("c")), "s", E("$.steps.c.outputs.success.s"))}}}
}

func progOneOf() *Program {
	return &Program{Name: "oneof", Steps: []Step{pstep("a", O("v", E("$.input.n")))},
		Outputs: []Output{{"success", O("r", OneOf{Disc: "kind", Opts: []Field{
			{"ok", E("$.steps.a.outputs.success")},
			{"bad", E("$.steps.a.outputs.error")},
		}})}}}
}

func progOneOf2() *Program {
	return &Program{Name: "oneof2", Steps: []Step{
		pstep("a", O("v", E("$.input.n"))),
		pstep("b", O("v", I(4))),
	}, Outputs: []Output{{"success", O(
		"x", OneOf{Disc: "kind", Opts: []Field{{"ok", E("$.steps.a.outputs.success")}, {"bad", E("$.steps.a.outputs.error")}}},
		"y", OneOf{Disc: "kind", Opts: []Field{{"ok", E("$.steps.b.outputs.success")}, {"bad", E("$.steps.b.outputs.error")}}},
	)}}}
}

const subInputSchema = `root: Item
objects:
  Item:
    id: Item
    properties:
      v:
        type:
          type_id: integer
`

func subProg() *Program {
	return &Program{Name: "sub", InputSchema: subInputSchema, Steps: []Step{
		pstep("w", O("v", E("$.input.v"))),
	}, Outputs: []Output{{"success", O("r", E(sv("w")))}}}
}

func subProgErr() *Program {
	return &Program{Name: "suberr", InputSchema: subInputSchema, Steps: []Step{
		pstep("w", O("v", E("$.input.v"))),
	}, Outputs: []Output{
		{"success", O("r", E(sv("w")))},
		{"error", O("reason", E("$.steps.w.outputs.error.error"))},
	}}
}

func progForeach(sub *Program, par int64) *Program {
	st := Step{ID: "loop", Kind: "foreach", SubFile: "sub.yaml", Sub: sub,
		Items: List{[]Node{O("v", I(1)), O("v", I(2)), O("v", E("$.input.n"))}}}
	if par > 0 {
		st.Parallelism = I(par)
	}
	return &Program{Name: fmt.Sprintf("foreach-%s-p%d", sub.Name, par), Steps: []Step{st},
		Outputs: []Output{
			{"success", O("d", E("$.steps.loop.outputs.success.data"))},
			{"failed", O("e", E("$.steps.loop.failed.error"))},
		}}
}

// a loop step with a literal enabled value
func progForeachEnabledLit(name string, lit any) *Program {
	p := progForeach(subProg(), 2)
	p.Name = name
	p.Steps[0].Enabled = Lit{lit}
	// a sibling that is alive while the loop step ends (disabled or not)
	p.Steps = append(p.Steps, pstep("x", O("v", E("$.input.n"))))
	p.Outputs[0].Val = O("d", E("$.steps.loop.outputs.success.data"), "x", E(sv("x")))
	p.Outputs = append(p.Outputs, Output{"off", O("m", E("$.steps.loop.disabled.output.message"), "x", E(sv("x")))})
	return p
}

func progFanInN(n int) *Program {
	p := &Program{Name: fmt.Sprintf("fanin%d", n)}
	var fields []any
	for i := 0; i < n; i++ {
		id := fmt.Sprintf("s%02d", i)
		p.Steps = append(p.Steps, pstep(id, O("v", I(int64(i)))))
		fields = append(fields, "f"+id, E(sv(id)))
	}
	p.Outputs = []Output{{"success", O(fields...)}}
	return p
}

// n steps waiting for one gate step, all feeding one output
func progGateFanOut(n int) *Program {
	p := &Program{Name: fmt.Sprintf("gatefanout%d", n), Steps: []Step{pstep("g", O("v", E("$.input.n")))}}
	var fields []any
	for i := 0; i < n; i++ {
		id := fmt.Sprintf("w%02d", i)
		p.Steps = append(p.Steps, Step{ID: id, Input: O("v", I(int64(i))), WaitFor: E("$.steps.g.outputs.success")})
		fields = append(fields, "f"+id, E(sv(id)))
	}
	p.Outputs = []Output{{"success", O(fields...)}}
	return p
}

// two outputs that become producible in the same round, with different data of the same shape
func progTwoReady() *Program {
	return &Program{Name: "twoready", Steps: []Step{pstep("a", O("v", E("$.input.n")))},
		Outputs: []Output{
			{"success", O("r", E(ss("a")))},
			{"verbose", O("r", E("toUpper("+ss("a")+")"))}}}
}

// a stop condition that is an (empty) object: the started output of another step
func progStopStarted() *Program {
	return &Program{Name: "stopstarted", Steps: []Step{
		pstep("t", O("v", E("$.input.n"))),
		{ID: "a", Input: O("v", I(1)), StopIf: E("$.steps.t.starting.started"), WaitFor: E("$.steps.t.outputs.success")},
	}, Outputs: []Output{
		{"ran", O("r", E(sv("a")))},
		{"closed", O("c", E("$.steps.a.closed.result.cancelled"), "t", E(sv("t")))}}}
}

// a list that starts with a literal and continues with an expression
func progLitExprList() *Program {
	return &Program{Name: "litexprlist", Steps: []Step{pstep("a", O("v", E("$.input.n"))), pstep("b", O("v", I(2)))},
		Outputs: []Output{
			{"success", O("l", List{[]Node{Str("lit"), E(ss("a"))}}, "b", E(sv("b")))},
			{"failed", O("e", E("$.steps.a.outputs.error.error"), "l", List{[]Node{Str("x"), E(ss("b"))}})}}}
}

// unrelated never-ending step next to a failing chain
func progUnrelatedHang() *Program {
	return &Program{Name: "unrelatedhang", Steps: []Step{
		pstep("a", O("v", E("$.input.n"))),
		{ID: "h", Input: O("v", I(0)), ClosureMS: I(50)},
	}, Outputs: []Output{{"success", O("r", E(sv("a")))}}}
}

// a consumer of a producer's starting.started next to an unrelated step that never ends
func progStartedHang() *Program {
	return &Program{Name: "startedhang", Steps: []Step{
		pstep("a", O("v", E("$.input.n"))),
		{ID: "b", Input: O("v", I(3)), WaitFor: E("$.steps.a.starting.started")},
		{ID: "h", Input: O("v", I(0)), ClosureMS: I(50)},
	}, Outputs: []Output{{"success", O("r", E(sv("b")))}}}
}

// a consumer of the started event of a step that may end disabled (alone, and next to a step that never ends)
func progEnabledStarted(hang bool) *Program {
	p := &Program{Name: "enabledstarted", Steps: []Step{
		{ID: "a", Input: O("v", E("$.input.n")), Enabled: E("$.input.flag")},
		{ID: "b", Input: O("v", I(3)), WaitFor: E("$.steps.a.starting.started")},
	}, Outputs: []Output{{"success", O("r", E(sv("b")))}, {"off", O("m", E("$.steps.a.disabled.output.message"))}}}
	if hang {
		p.Name = "enabledstartedhang"
		p.Steps = append(p.Steps, Step{ID: "h", Input: O("v", I(0)), ClosureMS: I(50)})
		p.Outputs = p.Outputs[:1]
	}
	return p
}

// literal (non-expression) enabled values: YAML scalars reach the provider as strings
func progEnabledLit(name string, lit any) *Program {
	return &Program{Name: name, Steps: []Step{
		{ID: "a", Input: O("v", E("$.input.n")), Enabled: Lit{lit}},
		{ID: "b", Input: O("v", I(2)), WaitFor: E("$.steps.a.outputs.success")},
	}, Outputs: []Output{
		{"success", O("r", E(sv("b")), "q", E(sv("a")))},
		{"off", O("m", E("$.steps.a.disabled.output.message"))}}}
}

// hangScenarios: step h never ends (it has to be closed by the engine) while the other steps take
// every outcome; the quick tier's other vectors have no never-ending step
func hangScenarios() []*Scenario {
	var out []*Scenario
	alts := []stepAlt{altsBasic[0], altsBasic[1], altsBasic[2], altsBasic[3], {"mismatch", env.StepScript{Run: env.RunSchemaMismatch}}, {"schemafail", env.StepScript{ReadSchemaFails: true}}}
	for _, p := range []*Program{progUnrelatedHang(), progStartedHang(), progEnabledStarted(true)} {
		others := &Program{Name: p.Name}
		for _, st := range p.Steps {
			if st.ID != "h" {
				others.Steps = append(others.Steps, st)
			}
		}
		for _, hk := range []stepAlt{{"hang", env.StepScript{Run: env.RunHangCancel}}, {"hangx", env.StepScript{Run: env.RunHangIgnore}}} {
			for _, sc0 := range vectors(others, alts, 40) {
				for _, in := range defaultInputs(p) {
					cp := *sc0
					sc := &cp
					sc.Steps = map[string]*env.StepScript{}
					for k, v := range sc0.Steps {
						c := *v
						sc.Steps[k] = &c
					}
					h := hk.sc
					sc.Steps["h"] = &h
					s := &Scenario{Class: p.Name, Prog: p, Script: sc, Input: in}
					s.Name = p.Name + "/" + vecName(sc) + "/" + canonStr(s.Input)
					out = append(out, s)
				}
			}
		}
	}
	return out
}

// progNoSig: the same program with plugin steps that have no cancel signal handler
func progNoSig(p *Program, name string) *Program {
	q := *p
	q.Name = name
	q.Steps = append([]Step{}, p.Steps...)
	for i := range q.Steps {
		q.Steps[i].PluginStep = "nosig"
	}
	return &q
}

// programs for the cancellation driver
func cancelPrograms() []*Program {
	noSig := func(p *Program, name string) *Program {
		q := *p
		q.Name = name
		q.Steps = append([]Step{}, p.Steps...)
		for i := range q.Steps {
			q.Steps[i].PluginStep = "nosig"
		}
		return &q
	}
	withClosure := func(p *Program, name string, ms int64) *Program {
		q := *p
		q.Name = name
		q.Steps = append([]Step{}, p.Steps...)
		for i := range q.Steps {
			if q.Steps[i].Kind != "foreach" {
				q.Steps[i].ClosureMS = I(ms)
			}
		}
		return &q
	}
	return []*Program{
		progSingle(), withClosure(progSingle(), "single-c0", 0), withClosure(progSingle(), "single-c50", 50), noSig(progSingle(), "single-nosig"),
		progChain(2), withClosure(progFanIn(), "fanin-c50", 50), progForeach(subProg(), 2), progUnrelatedHang(), progStopProducer(),
		// a loop that is still waiting for its items / its wait_for when the cancel comes
		progWaitForListLoop(), progLoopItemsFrom(),
	}
}

// the items of the loop come from another step
func progLoopItemsFrom() *Program {
	p := progForeach(subProg(), 1)
	p.Name = "loopitemsfrom"
	p.Steps[0].Items = List{[]Node{O("v", E(sv("x"))), O("v", I(2))}}
	p.Steps = append(p.Steps, pstep("x", O("v", E("$.input.n"))))
	p.Outputs = []Output{{"success", O("d", E("$.steps.loop.outputs.success.data"))}}
	return p
}

var altsCancel = []stepAlt{
	{"ok", env.StepScript{}},
	{"slow", env.StepScript{RunMS: 20}},
	{"hang", env.StepScript{Run: env.RunHangCancel}},
	{"hangx", env.StepScript{Run: env.RunHangIgnore}},
	{"hangslow", env.StepScript{Run: env.RunHangCancel, CancelMS: 30}},
	{"slowdeploy", env.StepScript{DeployMS: 15, DeployIgnoreCtx: true}},
	{"deployhang", env.StepScript{Deploy: env.DeployHang}},
	{"nodeploy", env.StepScript{Deploy: env.DeployFail}},
}

// expressions with several references, one of which is already connected by another field
func ss(step string) string { return "$.steps." + step + ".outputs.success.s" }

func progSumExpr() *Program {
	return &Program{Name: "sumexpr", Steps: []Step{
		pstep("a", O("v", E("$.input.n"))),
		pstep("b", O("v", I(10))),
		{ID: "c", Input: O("v", E(sv("a"))), WaitFor: E(ss("a") + " + " + ss("b"))},
	}, Outputs: []Output{{"success", O("r", E(sv("c")))}}}
}

func progSumExpr2() *Program {
	return &Program{Name: "sumexpr2", Steps: []Step{
		pstep("a", O("v", E("$.input.n"))),
		pstep("b", O("v", I(10))),
		{ID: "c", Input: O("v", I(3), "s", E(ss("a")+" + "+ss("b"))), WaitFor: E("$.steps.a.outputs.success")},
	}, Outputs: []Output{{"success", O("r", E(sv("c")), "q", E(ss("a")+" + "+ss("c")))}}}
}

// integer arithmetic on values produced by plugins
func progSumInts() *Program {
	return &Program{Name: "sumints", Steps: []Step{
		pstep("a", O("v", E("$.input.n"))),
		pstep("b", O("v", E(sv("a")+" + 1"))),
	}, Outputs: []Output{{"success", O("r", E(sv("b")))}}}
}

// stop condition and enable condition driven by two different producers
func progStopEnable() *Program {
	return &Program{Name: "stopenable", Steps: []Step{
		pstep("p", O("v", E("$.input.n"))),
		pstep("q", O("v", I(2))),
		{ID: "a", Input: O("v", I(1)), StopIf: E("$.steps.p.outputs.success"), Enabled: E("$.steps.q.enabling.resolved.enabled")},
	}, Outputs: []Output{
		{"success", O("r", E(sv("a")))},
		{"closed", O("c", E("$.steps.a.closed.result.cancelled"))},
	}}
}

// deployment configuration that depends on another step
func progDeployDep() *Program {
	return &Program{Name: "deploydep", Steps: []Step{
		pstep("p", O("v", E("$.input.n"))),
		{ID: "a", Input: O("v", I(1)), Deploy: O("deployer_name", Str("scripted"), "tag", E("$.steps.p.outputs.success.s"))},
	}, Outputs: []Output{{"success", O("r", E(sv("a")))}}}
}

// wait_for written as a list of tagged scalars (block sequence), for a plugin step and for a loop step
func progWaitForList() *Program {
	return &Program{Name: "waitforlist", Steps: []Step{
		pstep("a", O("v", E("$.input.n"))),
		pstep("b", O("v", I(2))),
		{ID: "c", Input: O("v", I(3)), WaitFor: List{[]Node{E("$.steps.a.outputs.success"), E("$.steps.b.outputs.success")}}},
	}, Outputs: []Output{
		{"success", O("r", E(sv("c")))},
		{"other", O("e", Opt{true, "$.steps.b.outputs.error.error"}, "a", E(sv("a")))}}}
}

func progWaitForListLoop() *Program {
	p := progForeach(subProg(), 2)
	p.Name = "waitforlistloop"
	p.Steps[0].WaitFor = List{[]Node{E("$.steps.x.outputs.success")}}
	p.Steps = append(p.Steps, pstep("x", O("v", E("$.input.n"))))
	p.Outputs = []Output{
		{"success", O("d", E("$.steps.loop.outputs.success.data"))},
		{"other", O("e", E("$.steps.x.outputs.error.error"))}}
	return p
}

// a step whose deployment configuration can never be computed is stopped by another step
func progDeployDepStop() *Program {
	return &Program{Name: "deploydepstop", Steps: []Step{
		pstep("p", O("v", E("$.input.n"))),
		pstep("q", O("v", I(2))),
		{ID: "a", Input: O("v", I(1)), Deploy: O("deployer_name", Str("scripted"), "tag", E("$.steps.p.outputs.success.s")),
			StopIf: E("$.steps.q.outputs.success")},
	}, Outputs: []Output{
		{"success", O("r", E(sv("a")))},
		{"closed", O("c", E("$.steps.a.closed.result.cancelled"), "q", E(sv("q")))}}}
}

// a loop with more items than slots next to a step whose failure ends the run
func progLoopSibling() *Program {
	p := progLoop(3, 1, subProg(), "loopsibling")
	p.Steps = append(p.Steps, pstep("x", O("v", E("$.input.n"))))
	p.Outputs = []Output{{"success", O("d", E("$.steps.loop.outputs.success.data"), "r", E(sv("x")))}}
	return p
}

func catalogue() []*Program {
	return []*Program{
		progLoopSibling(),
		progDeployDep(), progDeployDepStop(), progWaitForList(), progWaitForListLoop(), progLoopItemsFrom(),
		progNoSig(progChain(2), "chain2-nosig"), progNoSig(progFanIn(), "fanin-nosig"),
		progTwoReady(), progStopStarted(), progLitExprList(),
		progSumExpr(), progSumExpr2(), progSumInts(), progStopEnable(),
		progEnabledLit("enabledlit-false", false), progEnabledLit("enabledlit-true", true), progEnabledLit("enabledlit-no", "no"),
		progForeachEnabledLit("loopenabledlit-true", true), progForeachEnabledLit("loopenabledlit-off", "off"),
		progSingle(), progChain(2), progChain(3), progFanIn(), progDiamond(), progMultiOut(), progMultiOut2(),
		progWaitStarted(), progEnabledStarted(false), progEnabled(), progEnabledChain(), progStopInput(), progStopProducer(), progDeployExpr(),
		progOptional(), progSoftOptional(), progOptionalInput(), progOneOf(), progOneOf2(),
		progForeach(subProg(), 1), progForeach(subProg(), 2), progForeach(subProgErr(), 3), progUnrelatedHang(),
	}
}

// ---------------------------------------------------------------------------------------
// outcome vectors

type stepAlt struct {
	name string
	sc   env.StepScript
}

var altsBasic = []stepAlt{
	{"ok", env.StepScript{}},
	{"err", env.StepScript{Run: env.RunErrorOut}},
	{"crash", env.StepScript{Run: env.RunCrash}},
	{"nodeploy", env.StepScript{Deploy: env.DeployFail}},
	{"slowdeploy", env.StepScript{DeployMS: 40, DeployIgnoreCtx: true}},
}

var altsMore = []stepAlt{
	{"hang", env.StepScript{Run: env.RunHangCancel}},
	{"hangx", env.StepScript{Run: env.RunHangIgnore}},
	{"mismatch", env.StepScript{Run: env.RunSchemaMismatch}},
	{"deployhang", env.StepScript{Deploy: env.DeployHang}},
	{"slow", env.StepScript{RunMS: 35, DeployMS: 3}},
	{"schemafail", env.StepScript{ReadSchemaFails: true}},
	{"closefail", env.StepScript{ClientCloseFail: true, ConnCloseFails: true}},
}

// pluginIDs lists the plugin step ids of a program including sub-workflows.
func pluginIDs(p *Program) []string {
	var out []string
	for _, s := range p.Steps {
		if s.Kind == "foreach" {
			out = append(out, pluginIDs(s.Sub)...)
		} else {
			out = append(out, s.ID)
		}
	}
	return out
}

// vectors enumerates outcome vectors: every step gets every alternative (full product) while
// the product stays below limit, otherwise one deviating step at a time (plus all-equal vectors).
func vectors(p *Program, alts []stepAlt, limit int) []*env.Script {
	ids := pluginIDs(p)
	var out []*env.Script
	total := 1
	for range ids {
		total *= len(alts)
		if total > limit {
			break
		}
	}
	mk := func(choice []int) *env.Script {
		sc := &env.Script{Steps: map[string]*env.StepScript{}}
		for i, id := range ids {
			c := alts[choice[i]].sc
			sc.Steps[id] = &c
		}
		return sc
	}
	if total <= limit {
		choice := make([]int, len(ids))
		for {
			out = append(out, mk(choice))
			i := 0
			for i < len(ids) {
				choice[i]++
				if choice[i] < len(alts) {
					break
				}
				choice[i] = 0
				i++
			}
			if i == len(ids) {
				break
			}
		}
		return out
	}
	base := make([]int, len(ids))
	out = append(out, mk(base))
	for a := 1; a < len(alts); a++ {
		all := make([]int, len(ids))
		for i := range all {
			all[i] = a
		}
		out = append(out, mk(all))
		for i := range ids {
			c := make([]int, len(ids))
			c[i] = a
			out = append(out, mk(c))
		}
	}
	return out
}

func defaultInputs(p *Program) []map[string]any {
	switch p.Name {
	case "enabled", "enabledchain", "stopinput", "enabledstarted", "enabledstartedhang":
		return []map[string]any{{"n": 5, "flag": true}, {"n": 5, "flag": false}}
	case "deployexpr":
		return []map[string]any{{"n": 5, "s": "tag1"}}
	}
	return []map[string]any{{"n": 5}}
}

// buildScenarios makes the scenario list for a set of programs.
func buildScenarios(progs []*Program, alts []stepAlt, limit int) []*Scenario {
	var out []*Scenario
	for _, p := range progs {
		for _, in := range defaultInputs(p) {
			for _, sc := range vectors(p, alts, limit) {
				s := &Scenario{Class: p.Name, Prog: p, Script: sc, Input: in}
				s.Name = p.Name + "/" + vecName(sc) + "/" + canonStr(in)
				out = append(out, s)
			}
		}
	}
	return out
}

func vecName(sc *env.Script) string {
	var parts []string
	for _, k := range sortedKeys(sc.Steps) {
		st := sc.Steps[k]
		n := env.RunKindNames[st.Run]
		if st.Deploy != env.DeployOK {
			n = "deploy-" + env.DeployKindNames[st.Deploy]
		}
		if st.RunMS > 0 {
			n += fmt.Sprintf("@%d", st.RunMS)
		}
		if st.DeployMS > 0 {
			n += fmt.Sprintf("~deploy%d", st.DeployMS)
		}
		if st.ReadSchemaFails {
			n += "+schemafail"
		}
		if st.ConnCloseFails || st.ClientCloseFail {
			n += "+closefail"
		}
		if st.CancelMS > 0 {
			n += fmt.Sprintf("+cancel%d", st.CancelMS)
		}
		if len(st.ByValue) > 0 {
			var vs []string
			for v, k := range st.ByValue {
				vs = append(vs, fmt.Sprintf("%d:%s", v, env.RunKindNames[k]))
			}
			sort.Strings(vs)
			n += "[" + strings.Join(vs, ",") + "]"
		}
		parts = append(parts, k+"="+n)
	}
	return strings.Join(parts, ",")
}

// ---------------------------------------------------------------------------------------
// tag-focused programs (C15)

func tagPrograms() []*Program {
	okbad := func(step string) OneOf {
		return OneOf{Disc: "kind", Opts: []Field{{"ok", E("$.steps." + step + ".outputs.success")}, {"bad", E("$.steps." + step + ".outputs.error")}}}
	}
	return []*Program{
		progOptional(), progSoftOptional(), progOptionalInput(), progOneOf(), progOneOf2(), progEnabled(), progSoftOptionalDet(),
		{Name: "opt3", Steps: []Step{pstep("a", O("v", E("$.input.n"))), pstep("b", O("v", I(1))), pstep("c", O("v", I(2)))},
			Outputs: []Output{{"success", O("r", E(sv("b")), "w1", Opt{true, sv("a")}, "w2", Opt{true, sv("c")}, "s1", Opt{false, ss("a")})}}},
		{Name: "optnested", Steps: []Step{pstep("a", O("v", E("$.input.n"))), pstep("b", O("v", I(1)))},
			Outputs: []Output{{"success", O("r", E(sv("b")), "m", O("w", Opt{true, sv("a")}, "k", Str("x")), "l", List{[]Node{O("x", Opt{true, ss("a")}, "y", I(1))}})}}},
		{Name: "oneofnested", Steps: []Step{pstep("a", O("v", E("$.input.n"))), pstep("b", O("v", I(3)))},
			Outputs: []Output{{"success", O("r", OneOf{Disc: "outer", Opts: []Field{
				{"first", O("inner", okbad("a"))},
				{"second", E("$.steps.a.crashed.error")},
			}}, "q", E(sv("b")))}}},
		{Name: "oneoflist", Steps: []Step{pstep("a", O("v", E("$.input.n"))), pstep("b", O("v", I(3)))},
			Outputs: []Output{{"success", O("l", List{[]Node{okbad("a"), okbad("b")}})}}},
		{Name: "softinput", Steps: []Step{pstep("a", O("v", E("$.input.n"))), pstep("c", O("v", I(2), "s", Opt{false, ss("a")}))},
			Outputs: []Output{{"success", O("r", E(sv("c")), "s", E(ss("c")))}}},
		{Name: "waitoptdisabled", Steps: []Step{
			{ID: "a", Input: O("v", E("$.input.n")), Enabled: E("$.input.flag")},
			pstep("b", O("v", I(1)))},
			Outputs: []Output{{"success", O("r", E(sv("b")), "w", Opt{true, sv("a")}, "d", OrDisabled{"$.steps.a.outputs.success"})}}},
		{Name: "strictlenient", Steps: []Step{pstep("a", O("v", E("$.input.n"))), pstep("b", O("v", I(1)))},
			Outputs: []Output{
				{"strict", O("x", E(sv("a")), "y", E(sv("b")))},
				{"lenient", O("x", Opt{true, sv("a")}, "y", Opt{true, sv("b")})},
			}},
		{Name: "strictlenient3", Steps: []Step{pstep("a", O("v", E("$.input.n"))), pstep("b", O("v", I(1))), pstep("c", O("v", E(sv("b"))))},
			Outputs: []Output{
				{"strict", O("x", E(sv("a")), "y", E(sv("b")), "z", E(sv("c")))},
				{"lenient", O("x", Opt{true, sv("a")}, "z", OneOf{Disc: "k", Opts: []Field{{"ok", E("$.steps.c.outputs.success")}, {"bad", E("$.steps.c.outputs.error")}}})},
			}},
		// optional expressions over two sources: present exactly when both were produced
		{Name: "optmulti", Steps: []Step{pstep("a", O("v", E("$.input.n"))), pstep("b", O("v", I(4))), pstep("c", O("v", I(7)))},
			Outputs: []Output{{"success", O("c", E(sv("c")), "m", O("both", Opt{true, ss("a") + " + " + ss("b")}, "one", Opt{true, ss("a")}))}}},
		{Name: "optmultiin", Steps: []Step{pstep("a", O("v", E("$.input.n"))),
			{ID: "b", Input: O("v", I(4)), Enabled: E("$.input.flag")},
			{ID: "c", Input: O("v", I(7)), WaitFor: List{[]Node{O("both", Opt{true, ss("a") + " + " + ss("b")}, "one", Opt{true, ss("a")})}}}},
			Outputs: []Output{{"success", O("c", E(sv("c")))}}},
		// alternatives that are independent steps: several may be produced before the value is built
		// (the consumer also waits for c, which the vectors make slow)
		{Name: "oneofsteps", Steps: []Step{pstep("a", O("v", E("$.input.n"))), pstep("b", O("v", I(4))), pstep("c", O("v", I(7)))},
			Outputs: []Output{{"success", O("pick", OneOf{Disc: "which", Opts: []Field{
				{"ia", E("$.steps.a.outputs.success")}, {"ib", E("$.steps.b.outputs.success")}}}, "c", E(sv("c")))}}},
		{Name: "oneofsteps3", Steps: []Step{pstep("a", O("v", E("$.input.n"))), pstep("b", O("v", I(4))), pstep("d", O("v", I(9))), pstep("c", O("v", I(7)))},
			Outputs: []Output{{"success", O("m", O("l", List{[]Node{OneOf{Disc: "which", Opts: []Field{
				{"ia", E("$.steps.a.outputs.success")}, {"ib", E("$.steps.b.outputs.success")}, {"id", E("$.steps.d.outputs.success")}}}}}), "c", E(sv("c")))}}},
		// a one-of alternative that is an object of the data model itself (stage-level reference, workflow
		// input object) and a second, plain reference to the same object
		{Name: "oneofstage", Steps: []Step{pstep("a", O("v", E("$.input.n"))), pstep("b", O("v", I(4)))},
			Outputs: []Output{{"success", O("t", OneOf{Disc: "kind", Opts: []Field{
				{"st", E("$.steps.a.outputs")}, {"cr", E("$.steps.a.crashed")}}}, "plain", E("$.steps.a.outputs"), "b", E(sv("b")))}}},
		{Name: "oneofinput", Steps: []Step{
			{ID: "a", Input: O("v", I(1)), WaitFor: OneOf{Disc: "kind", Opts: []Field{{"in", E("$.input")}, {"b", E("$.steps.b.outputs.success")}}}},
			pstep("b", O("v", E("$.input.n"))),
			{ID: "c", Input: O("v", E(sv("a"))), WaitFor: E("$.input")}},
			Outputs: []Output{{"success", O("r", E(sv("a")), "q", E(sv("b")), "i", E("$.input.n"), "c", E(sv("c")))}}},
		// the enable condition of a comes from another step; consumers wait on a's disabled output
		{Name: "enabledep", Steps: []Step{
			pstep("p", O("v", E("$.input.n"))),
			{ID: "a", Input: O("v", I(1)), Enabled: E("$.steps.p.enabling.resolved.enabled")},
			pstep("b", O("v", I(1)))},
			Outputs: []Output{{"success", O("r", E(sv("b")), "m", Opt{true, "$.steps.a.disabled.output.message"}, "v", Opt{true, sv("a")})}}},
		{Name: "enabledep2", Steps: []Step{
			pstep("p", O("v", E("$.input.n"))),
			{ID: "a", Input: O("v", I(1)), Enabled: E("$.steps.p.enabling.resolved.enabled"), StopIf: E("$.input.flag")},
			pstep("b", O("v", I(1)))},
			Outputs: []Output{
				{"success", O("r", OrDisabled{"$.steps.a.outputs.success"})},
				{"other", O("r", E(sv("b")), "m", Opt{true, "$.steps.a.disabled.output.message"})}}},
		// a running step is stopped by a producer and must be force-closed; consumers use wait-optional on its outputs
		{Name: "stopforce", Steps: []Step{
			pstep("p", O("v", E("$.input.n"))),
			{ID: "a", Input: O("v", I(1)), StopIf: E("$.steps.p.outputs.success"), ClosureMS: I(0)}},
			Outputs: []Output{{"done", O("t", E(sv("p")), "w", Opt{true, sv("a")})}}},
		{Name: "stopforce2", Steps: []Step{
			pstep("p", O("v", E("$.input.n"))),
			{ID: "a", Input: O("v", I(1)), StopIf: E("$.steps.p.outputs.success"), ClosureMS: I(50)},
			{ID: "c", Input: O("v", I(3), "s", Opt{true, ss("a")})}},
			Outputs: []Output{{"done", O("t", E(sv("p")), "q", E(sv("c")))}}},
		{Name: "optstarted", Steps: []Step{
			{ID: "a", Input: O("v", E("$.input.n")), Enabled: E("$.input.flag")},
			{ID: "c", Input: O("v", I(2)), WaitFor: O("x", Opt{true, "$.steps.a.starting.started"})}},
			Outputs: []Output{{"success", O("r", E(sv("c")))}}},
		{Name: "optinwaitfor", Steps: []Step{
			pstep("a", O("v", E("$.input.n"))),
			{ID: "c", Input: O("v", I(2)), WaitFor: O("x", Opt{true, "$.steps.a.outputs.success"})}},
			Outputs: []Output{{"success", O("r", E(sv("c")))}}},
	}
}

func tagInputs(p *Program) []map[string]any {
	switch p.Name {
	case "enabled", "waitoptdisabled", "enabledep2", "optmultiin", "optstarted":
		return []map[string]any{{"n": 5, "flag": true}, {"n": 5, "flag": false}}
	}
	return []map[string]any{{"n": 5}}
}

// ---------------------------------------------------------------------------------------
// programs whose expressions can fail at run time (C07)

func evalFailPrograms() []*Program {
	two := func(name string, bInput Node, extra func(p *Program)) *Program {
		p := &Program{Name: name, Steps: []Step{pstep("a", O("v", E("$.input.n"))), {ID: "b", Input: bInput}},
			Outputs: []Output{{"success", O("r", E(sv("a")), "q", E(sv("b")))}}}
		if extra != nil {
			extra(p)
		}
		return p
	}
	return []*Program{
		two("evalconv", O("v", E("stringToInt($.input.s)")), nil),
		two("evalindex", O("v", E("$.input.l[1]")), nil),
		two("evaldiv", O("v", E("10 / $.input.n")), nil),
		two("evalmod", O("v", E("10 % $.input.n")), nil),
		two("evalenabled", O("v", I(1)), func(p *Program) { p.Steps[1].Enabled = E("stringToBool($.input.s)") }),
		two("evalstop", O("v", I(1)), func(p *Program) { p.Steps[1].StopIf = E("stringToBool($.input.s)") }),
		two("evaldeploy", O("v", I(1)), func(p *Program) {
			p.Steps[1].Deploy = O("deployer_name", Str("scripted"), "tag", E("intToString(stringToInt($.input.s))"))
		}),
		two("evalfnoutput", O("v", I(1), "s", E("intToString($.steps.a.outputs.success.v)")), nil),
		two("evaloutconv", O("v", I(1)), func(p *Program) {
			p.Outputs = []Output{{"success", O("r", E("stringToInt($.steps.a.outputs.success.s)"))}, {"other", O("q", E(sv("b")), "e", E("$.steps.a.outputs.error.v"))}}
		}),
		two("evalfloat", O("v", E("floatToInt(stringToFloat($.input.s))")), nil),
		// two failures in one round: the producer's error output makes the output unresolvable and
		// releases a step whose input cannot be evaluated
		two("evalwait", O("v", E("stringToInt($.input.s)")), func(p *Program) { p.Steps[1].WaitFor = E("$.steps.a.outputs") }),
		// failing expressions under the optional / one-of tags (separate evaluation paths in the run loop)
		two("evaloptout", O("v", I(1)), func(p *Program) {
			p.Outputs = []Output{{"success", O("r", E(sv("a")), "p", Opt{true, "10 / $.input.n"}, "q", Opt{false, "$.input.l[1]"})}}
		}),
		two("evaloptout2", O("v", I(1)), func(p *Program) {
			p.Outputs = []Output{{"success", O("r", E(sv("a")), "p", Opt{false, "10 % $.input.n"}, "q", Opt{true, "stringToInt($.input.s)"})}}
		}),
		two("evaloptin", O("v", I(1), "s", Opt{true, "intToString(10 / $.input.n)"}), nil),
		two("evaloptin2", O("v", I(1), "s", Opt{false, "intToString(stringToInt($.input.s))"}), func(p *Program) { p.Steps[1].WaitFor = E("$.steps.a.outputs") }),
		two("evaloptfn", O("v", I(1)), func(p *Program) {
			p.Outputs = []Output{{"success", O("r", E(sv("a")), "p", Opt{true, "stringToInt($.steps.b.outputs.success.s)"})}}
		}),
		two("evaloneof", O("v", I(1)), func(p *Program) {
			p.Outputs = []Output{{"success", O("r", OneOf{Disc: "kind", Opts: []Field{
				{"ok", O("x", E("10 / $.input.n"), "y", E(sv("a")))},
				{"bad", E("$.steps.a.outputs.error")}}})}}
		}),
		// a loop whose parallelism comes from the input: zero and negative values are schema-valid integers
		func() *Program {
			p := progForeach(subProg(), 0)
			p.Name = "evalloopar"
			p.Steps[0].Parallelism = E("$.input.n")
			return p
		}(),
		two("evalwait2", O("v", E("$.input.l[2]")), func(p *Program) {
			p.Steps[1].WaitFor = E("$.steps.a.outputs")
			p.Steps = append(p.Steps, Step{ID: "c", Input: O("v", E("10 / $.input.n")), WaitFor: E("$.steps.a.outputs")})
		}),
	}
}

func evalFailInputs() []map[string]any {
	return []map[string]any{
		{"n": 5, "s": "7", "l": []any{1, 2}},
		{"n": 0, "s": "soon", "l": []any{1}},
		{"n": 5},
		{"n": -9223372036854775807, "s": "NaN", "l": []any{}},
		{"n": 1, "s": "true", "l": []any{3, 4, 5}},
		{"n": -1, "s": "0", "l": []any{0}},
	}
}
