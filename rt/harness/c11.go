package main

import (
	"bytes"
	"context"
	"fmt"
	"os"
	"os/exec"
	"path/filepath"
	"runtime/debug"
	"strings"
	"time"

	"go.flow.arcalot.io/engine/internal/verif/env"
	"go.flow.arcalot.io/engine/internal/verif/vrt"
	"go.flow.arcalot.io/engine/loadfile"
	"gopkg.in/yaml.v3"
)

// ---------------------------------------------------------------------------------------
// C11: parsing any files yields a workflow or an error.

var c11Alphabet = []byte(":-[]{}!&*#?| \na")

type c11Case struct {
	name  string
	files map[string][]byte // file name -> content (written below a scratch context directory)
	main  string            // workflow file name
	input []byte            // if non-nil, the parsed workflow is run with this input
	abs   bool              // refer to sub-workflows by absolute path
	valid bool              // the files form a valid workflow tree: it must parse and run to its success output
	missing string          // the file that must be reported missing
}

type c11Outcome struct {
	parsed   bool
	err      string
	panicked string
	stack    string
	hang     bool
	ran      bool
}

// c11Run parses (and optionally runs) one case in-process with a watchdog.
func c11Run(dir string, c *c11Case) c11Outcome {
	var out c11Outcome
	done := make(chan struct{})
	go func() {
		defer close(done)
		defer func() {
			if r := recover(); r != nil {
				out.panicked = fmt.Sprint(r)
				out.stack = string(debug.Stack())
			}
		}()
		for name, content := range c.files {
			p := filepath.Join(dir, name)
			_ = os.MkdirAll(filepath.Dir(p), 0o755)
			_ = os.WriteFile(p, content, 0o644)
		}
		defer func() {
			for name := range c.files {
				os.Remove(filepath.Join(dir, name))
			}
		}()
		env.W = env.NewWorld(&env.Script{})
		env.W.Phase = "prepare"
		eng, err := newEngine()
		if err != nil {
			out.err = "engine: " + err.Error()
			return
		}
		fc, err := loadfile.NewFileCacheUsingContext(dir, map[string]string{"workflow": c.main})
		if err == nil {
			err = fc.LoadContext()
		}
		if err != nil {
			out.err = "load: " + err.Error()
			return
		}
		wf, err := eng.Parse(fc, "workflow")
		if err != nil {
			out.err = err.Error()
			return
		}
		out.parsed = true
		if c.input != nil && wf != nil {
			x := vrt.Run(vrt.Config{MaxSteps: 200000}, nil, func() {
				env.W = env.NewWorld(&env.Script{})
				ctx, cancel := vrt.WithCancel("harness/c11", context.Background())
				defer cancel()
				_, _, _, rerr := wf.Run(ctx, c.input)
				if rerr != nil {
					out.err = rerr.Error()
				}
				out.ran = true
			})
			if p := x.Outcome().Panic; p != nil {
				out.panicked = p.Value
				out.stack = p.Stack
			}
		}
	}()
	select {
	case <-done:
	case <-time.After(30 * time.Second):
		out.hang = true
	}
	return out
}

func c11Seeds() map[string]*Program {
	return map[string]*Program{
		"plain":    progChain(2),
		"tags":     tagPrograms()[7], // opt3
		"oneof":    progOneOf2(),
		"enabled":  progEnabled(),
		"foreach":  progForeach(subProgErr(), 2),
		"deploy":   progDeployExpr(),
		"schema":   progWithOutputSchema(),
		"stopexpr": progStopProducer(),
	}
}

func progWithOutputSchema() *Program {
	p := progSingle()
	p.Name = "outschema"
	p.OutSchema = "success:\n  error: false\n  schema:\n    root: Out\n    objects:\n      Out:\n        id: Out\n        properties:\n          r:\n            type:\n              type_id: integer\n"
	return p
}

// shapes are the YAML shapes substituted for every node of a seed document.
var c11Shapes = []string{
	"null", `""`, "text", "17", "true", "{}", "? [a]\n: b\n", "{k: 1, k: 2}", "[x, y]", "[[x], []]", "{p: &anc v, q: *anc}", "{<<: {m: 1}, n: 2}",
	"!expr $.input.n", "!expr {a: 1}", "!expr [a]", "!expr \"\"", "!expr \"$.\"",
	"!expr $", "!expr $.steps", "!expr $.steps.a", "!expr $.input", "!expr $.nosuch", "!expr \"$[0]\"", "!expr \"$.steps[0]\"", "!expr \"$.steps.a[0]\"",
	"!expr \"1 +\"", "!expr \"f(\"", "!expr \"$.steps.a.outputs.success.v.x\"", "!expr \"$.steps.a.outputs.success[0]\"", "!expr \"$.input.n.x\"", "!expr \"nosuchfn($.input.n)\"",
	"!wait-optional $", "!soft-optional $.steps", "!ordisabled $", "!ordisabled $.steps.a",
	// schema fragments (meaningful where the seed document holds the input / output schema)
	"{type_id: ref, id: nosuchobject}", "{type_id: ref}", "{type_id: object, id: x, properties: {}}", "{type_id: list}", "{type_id: list, items: {type_id: ref, id: nosuchobject}}",
	"{type_id: map}", "{type_id: map, keys: {type_id: ref, id: nosuchobject}, values: {type_id: string}}", "{type_id: one_of_string, discriminator_field_name: d, types: {}}",
	"{type_id: one_of_string, types: {a: {type_id: ref, id: nosuchobject}}}", "{type_id: nosuchtype}", "{type_id: pattern}", "{type_id: enum_string, values: {}}", "{type_id: integer, min: x}",
	"!oneof x", "!oneof {discriminator: d, one_of: {a: !expr $.input}}", "!oneof {discriminator: d, one_of: [a, b]}", "!oneof {discriminator: [d], one_of: {}}", "!oneof {one_of: {}}", "!oneof []",
	"!ordisabled $.steps.a.outputs", "!ordisabled x", "!ordisabled {a: 1}", "!ordisabled [a]",
	"!wait-optional $.steps.a.outputs.success.v", "!wait-optional {a: 1}", "!soft-optional [x]", "!soft-optional \"\"",
	"!unknowntag x", "!!binary aGk=", "!!float .inf", "1e400", "0x10", "~", "|\n  block\n  text\n", "- - - x",
}

func parseShape(s string) *yaml.Node {
	var doc yaml.Node
	if err := yaml.Unmarshal([]byte(s), &doc); err != nil || len(doc.Content) == 0 {
		return &yaml.Node{Kind: yaml.ScalarNode, Tag: "!!str", Value: s}
	}
	return doc.Content[0]
}

func cloneNode(n *yaml.Node) *yaml.Node {
	if n == nil {
		return nil
	}
	c := *n
	c.Content = nil
	for _, ch := range n.Content {
		c.Content = append(c.Content, cloneNode(ch))
	}
	if n.Alias != nil {
		c.Alias = cloneNode(n.Alias)
	}
	return &c
}

// corruptDoc returns every single-point structural corruption of a YAML document.
func corruptDoc(text string) [][]byte {
	var doc yaml.Node
	if err := yaml.Unmarshal([]byte(text), &doc); err != nil {
		return nil
	}
	var out [][]byte
	emit := func(d *yaml.Node) {
		b, err := yaml.Marshal(d)
		if err == nil {
			out = append(out, b)
		}
	}
	shapes := make([]*yaml.Node, len(c11Shapes))
	for i, s := range c11Shapes {
		shapes[i] = parseShape(s)
	}
	// enumerate node positions by path
	type pos struct{ path []int }
	var positions []pos
	var walk func(n *yaml.Node, path []int)
	walk = func(n *yaml.Node, path []int) {
		for i, ch := range n.Content {
			p := append(append([]int{}, path...), i)
			positions = append(positions, pos{p})
			walk(ch, p)
		}
	}
	walk(&doc, nil)
	at := func(root *yaml.Node, path []int) (*yaml.Node, *yaml.Node, int) {
		var parent *yaml.Node
		n := root
		idx := 0
		for _, i := range path {
			parent = n
			idx = i
			n = n.Content[i]
		}
		return n, parent, idx
	}
	for _, p := range positions {
		for _, sh := range shapes {
			d := cloneNode(&doc)
			_, parent, idx := at(d, p.path)
			isKey := parent.Kind == yaml.MappingNode && idx%2 == 0
			if isKey && sh.Kind == yaml.ScalarNode && sh.Tag == "!!str" {
				continue // renaming a key to another plain string is not structural
			}
			parent.Content[idx] = cloneNode(sh)
			emit(d)
		}
		// remove / duplicate the key-value pair this node belongs to; move a tag to the parent
		d := cloneNode(&doc)
		n, parent, idx := at(d, p.path)
		if parent.Kind == yaml.MappingNode && idx%2 == 0 {
			rest := append(append([]*yaml.Node{}, parent.Content[:idx]...), parent.Content[idx+2:]...)
			dup := append(append([]*yaml.Node{}, parent.Content...), cloneNode(parent.Content[idx]), cloneNode(parent.Content[idx+1]))
			parent.Content = rest
			emit(d)
			d2 := cloneNode(&doc)
			_, parent2, _ := at(d2, p.path)
			parent2.Content = dup
			emit(d2)
		}
		if strings.HasPrefix(n.Tag, "!") && !strings.HasPrefix(n.Tag, "!!") && parent != nil && parent.Kind != yaml.DocumentNode {
			d3 := cloneNode(&doc)
			n3, parent3, _ := at(d3, p.path)
			parent3.Tag, n3.Tag = n3.Tag, ""
			emit(d3)
		}
	}
	return out
}

func allStrings(alphabet []byte, maxLen int) [][]byte {
	out := [][]byte{{}}
	level := [][]byte{{}}
	for l := 1; l <= maxLen; l++ {
		var next [][]byte
		for _, s := range level {
			for _, c := range alphabet {
				next = append(next, append(append([]byte{}, s...), c))
			}
		}
		out = append(out, next...)
		level = next
	}
	return out
}

func c11Unit(name string, gen func() []*c11Case) *Unit {
	return &Unit{Name: name, Run: func(deadline time.Time) *UnitResult {
		res := &UnitResult{Exhaustive: true, BoundCompleted: 1}
		dir, err := os.MkdirTemp(scratchRoot(), "c11-")
		if err != nil {
			res.HarnessErrors = append(res.HarnessErrors, err.Error())
			return res
		}
		defer os.RemoveAll(dir)
		seen := map[string]bool{}
		parsedOK := 0
		errClasses := map[string]bool{}
		cases := gen()
		for _, c := range cases {
			if time.Now().After(deadline) {
				res.Exhaustive = false
				break
			}
			res.Execs++
			o := c11Run(dir, c)
			if o.parsed {
				parsedOK++
			} else {
				errClasses[short(digitsRe.ReplaceAllString(o.err, "#"), 40)] = true
			}
			var key, detail string
			switch {
			case o.hang:
				key = name + "/does-not-return/" + c.name
				detail = "parsing did not return within 30 s"
			case o.panicked != "":
				key = name + "/panic/" + firstEngineFrame(o.stack)
				detail = fmt.Sprintf("panic: %s\n%s", short(o.panicked, 300), short(o.stack, 1500))
			case c.valid && (!o.parsed || o.err != ""):
				key = name + "/valid-tree-rejected/" + c.name
				detail = "every referenced sub-workflow file is present in the context directory, yet parsing/running failed: " + short(o.err, 400)
			case c.missing != "" && (o.parsed || !strings.Contains(o.err, c.missing)):
				key = name + "/missing-file-not-reported/" + c.name
				detail = fmt.Sprintf("sub-workflow file %s does not exist; expected an error naming it, got parsed=%v err=%q", c.missing, o.parsed, short(o.err, 300))
			}
			if key != "" && !seen[key] {
				seen[key] = true
				var files []string
				for n, b := range c.files {
					files = append(files, fmt.Sprintf("--- %s\n%s", n, short(string(b), 1200)))
				}
				res.Violations = append(res.Violations, vrt.FoundViolation{Violation: vrt.Violation{Key: key,
					Detail: fmt.Sprintf("%s\n  case: %s\n%s\n--- input: %q", detail, c.name, strings.Join(files, "\n"), short(string(c.input), 300))}})
			}
			if o.hang {
				res.Exhaustive = false
				res.Poisoned = true
				break
			}
		}
		res.Nontrivial = parsedOK + len(errClasses)
		res.Outcomes = parsedOK + len(errClasses)
		res.Signatures = res.Execs
		if len(cases) > 0 {
			res.Sample = map[string]any{"unit": name, "cases": len(cases), "parsed_successfully": parsedOK, "distinct_error_classes": len(errClasses), "example": cases[len(cases)/2].name}
		}
		return res
	}}
}

// c11SubworkflowCases: reference structures between workflow files.
func c11SubworkflowCases() []*c11Case {
	leaf := subProg().YAML()
	loopTo := func(file string, abs string) string {
		target := file
		if abs != "" {
			target = filepath.Join(abs, file)
		}
		return "version: v0.2.0\ninput:\n" + indent(subInputSchema, 2) + "steps:\n  l:\n    kind: foreach\n    workflow: " + target + "\n    items:\n      - v: !expr $.input.v\noutputs:\n  success:\n    d: !expr $.steps.l.outputs.success.data\n"
	}
	root := func(file string) string {
		return "version: v0.2.0\ninput:\n" + indent(defaultInputSchema, 2) + "steps:\n  l:\n    kind: foreach\n    workflow: " + file + "\n    items:\n      - v: !expr $.input.n\noutputs:\n  success:\n    d: !expr $.steps.l.outputs.success.data\n"
	}
	two := func(f1, f2 string) string {
		return "version: v0.2.0\ninput:\n" + indent(defaultInputSchema, 2) + "steps:\n  l1:\n    kind: foreach\n    workflow: " + f1 + "\n    items:\n      - v: !expr $.input.n\n  l2:\n    kind: foreach\n    workflow: " + f2 + "\n    items:\n      - v: !expr $.input.n\noutputs:\n  success:\n    d: !expr $.steps.l1.outputs.success.data\n    e: !expr $.steps.l2.outputs.success.data\n"
	}
	in := []byte("n: 3\n")
	cs := []*c11Case{
		{name: "depth1", valid: true, main: "w.yaml", input: in, files: map[string][]byte{"w.yaml": []byte(root("a.yaml")), "a.yaml": []byte(leaf)}},
		{name: "depth2", valid: true, main: "w.yaml", input: in, files: map[string][]byte{"w.yaml": []byte(root("a.yaml")), "a.yaml": []byte(loopTo("b.yaml", "")), "b.yaml": []byte(leaf)}},
		{name: "depth3", valid: true, main: "w.yaml", input: in, files: map[string][]byte{"w.yaml": []byte(root("a.yaml")), "a.yaml": []byte(loopTo("b.yaml", "")), "b.yaml": []byte(loopTo("c.yaml", "")), "c.yaml": []byte(leaf)}},
		{name: "depth4", valid: true, main: "w.yaml", input: in, files: map[string][]byte{"w.yaml": []byte(root("a.yaml")), "a.yaml": []byte(loopTo("b.yaml", "")), "b.yaml": []byte(loopTo("c.yaml", "")), "c.yaml": []byte(loopTo("d.yaml", "")), "d.yaml": []byte(leaf)}},
		{name: "diamond", valid: true, main: "w.yaml", input: in, files: map[string][]byte{"w.yaml": []byte(two("a.yaml", "b.yaml")), "a.yaml": []byte(loopTo("c.yaml", "")), "b.yaml": []byte(loopTo("c.yaml", "")), "c.yaml": []byte(leaf)}},
		{name: "two-nested-siblings", valid: true, main: "w.yaml", input: in, files: map[string][]byte{"w.yaml": []byte(two("a.yaml", "b.yaml")), "a.yaml": []byte(loopTo("a2.yaml", "")), "b.yaml": []byte(loopTo("b2.yaml", "")), "a2.yaml": []byte(leaf), "b2.yaml": []byte(leaf)}},
		{name: "shared-across-levels", valid: true, main: "w.yaml", input: in, files: map[string][]byte{"w.yaml": []byte(two("a.yaml", "c.yaml")), "a.yaml": []byte(loopTo("c.yaml", "")), "c.yaml": []byte(leaf)}},
		{name: "shared-across-levels-2", valid: true, main: "w.yaml", input: in, files: map[string][]byte{"w.yaml": []byte(two("z.yaml", "c.yaml")), "z.yaml": []byte(loopTo("c.yaml", "")), "c.yaml": []byte(leaf)}},
		{name: "same-twice", valid: true, main: "w.yaml", input: in, files: map[string][]byte{"w.yaml": []byte(two("a.yaml", "a.yaml")), "a.yaml": []byte(leaf)}},
		{name: "missing-file", missing: "nothere.yaml", main: "w.yaml", files: map[string][]byte{"w.yaml": []byte(root("nothere.yaml"))}},
		{name: "missing-nested", missing: "nothere.yaml", main: "w.yaml", files: map[string][]byte{"w.yaml": []byte(root("a.yaml")), "a.yaml": []byte(loopTo("nothere.yaml", ""))}},
		{name: "subdir", valid: true, main: "w.yaml", input: in, files: map[string][]byte{"w.yaml": []byte(root("sub/a.yaml")), "sub/a.yaml": []byte(leaf)}},
		{name: "dotdot", main: "w.yaml", files: map[string][]byte{"w.yaml": []byte(root("../a.yaml"))}},
		{name: "workflow-not-a-string", main: "w.yaml", files: map[string][]byte{"w.yaml": []byte(strings.Replace(root("a.yaml"), "workflow: a.yaml", "workflow: [a.yaml]", 1)), "a.yaml": []byte(leaf)}},
		{name: "workflow-missing-key", main: "w.yaml", files: map[string][]byte{"w.yaml": []byte(strings.Replace(root("a.yaml"), "    workflow: a.yaml\n", "", 1))}},
		{name: "workflow-null", main: "w.yaml", files: map[string][]byte{"w.yaml": []byte(strings.Replace(root("a.yaml"), "workflow: a.yaml", "workflow: null", 1))}},
		{name: "kind-not-a-string", main: "w.yaml", files: map[string][]byte{"w.yaml": []byte(strings.Replace(root("a.yaml"), "kind: foreach", "kind: [foreach]", 1)), "a.yaml": []byte(leaf)}},
		{name: "kind-map", main: "w.yaml", files: map[string][]byte{"w.yaml": []byte(strings.Replace(root("a.yaml"), "kind: foreach", "kind: {a: b}", 1)), "a.yaml": []byte(leaf)}},
		{name: "empty-sub", main: "w.yaml", files: map[string][]byte{"w.yaml": []byte(root("a.yaml")), "a.yaml": {}}},
		{name: "garbage-sub", main: "w.yaml", files: map[string][]byte{"w.yaml": []byte(root("a.yaml")), "a.yaml": []byte("{[")}},
		{name: "sub-without-success", main: "w.yaml", files: map[string][]byte{"w.yaml": []byte(root("a.yaml")), "a.yaml": []byte(strings.Replace(leaf, "success:", "other:", 1))}},
	}
	return cs
}

// recursive reference structures overflow the stack (fatal, not recoverable): they run in a child process.
func c11RecursiveCases() []*c11Case {
	loop := func(file string) string {
		return "version: v0.2.0\ninput:\n" + indent(subInputSchema, 2) + "steps:\n  l:\n    kind: foreach\n    workflow: " + file + "\n    items:\n      - v: !expr $.input.v\noutputs:\n  success:\n    d: !expr $.steps.l.outputs.success.data\n"
	}
	// YAML anchors whose content refers to the anchor itself, and a loop step whose file name equals
	// the key under which the command line registers the main workflow
	valid := progChain(2).YAML()
	selfAlias := []string{"&a [*a]\n", "&a {k: *a}\n", "version: v0.2.0\ninput: &in\n  root: *in\n", strings.Replace(valid, "outputs:\n", "outputs: &o\n  again: *o\n", 1),
		strings.Replace(valid, "steps:\n", "steps: &s\n  me: *s\n", 1), "- &x [*x, *x]\n"}
	var alias []*c11Case
	for i, t := range selfAlias {
		alias = append(alias, &c11Case{name: fmt.Sprintf("self-alias-workflow-%d", i), main: "w.yaml", files: map[string][]byte{"w.yaml": []byte(t)}})
		alias = append(alias, &c11Case{name: fmt.Sprintf("self-alias-input-%d", i), main: "w.yaml", input: []byte(t), files: map[string][]byte{"w.yaml": []byte(valid)}})
		alias = append(alias, &c11Case{name: fmt.Sprintf("self-alias-sub-%d", i), main: "w.yaml", files: map[string][]byte{"w.yaml": []byte(progForeach(subProg(), 1).YAML()), "sub.yaml": []byte(t)}})
	}
	alias = append(alias,
		&c11Case{name: "loop-file-named-workflow", main: "w.yaml", files: map[string][]byte{"w.yaml": []byte(loop("workflow")), "workflow": []byte(subProg().YAML())}},
		&c11Case{name: "loop-file-named-workflow-missing", main: "w.yaml", files: map[string][]byte{"w.yaml": []byte(loop("workflow"))}},
		// the same collision one and two levels down
		&c11Case{name: "nested-loop-file-named-workflow", main: "w.yaml", files: map[string][]byte{"w.yaml": []byte(loop("a.yaml")), "a.yaml": []byte(loop("workflow")), "workflow": []byte(subProg().YAML())}},
		&c11Case{name: "nested2-loop-file-named-workflow", main: "w.yaml", files: map[string][]byte{"w.yaml": []byte(loop("a.yaml")), "a.yaml": []byte(loop("b.yaml")), "b.yaml": []byte(loop("workflow")), "workflow": []byte(subProg().YAML())}})
	return append(alias, []*c11Case{
		{name: "self-reference", main: "w.yaml", files: map[string][]byte{"w.yaml": []byte(loop("w.yaml"))}},
		{name: "two-cycle", main: "w.yaml", files: map[string][]byte{"w.yaml": []byte(loop("a.yaml")), "a.yaml": []byte(loop("w.yaml"))}},
		{name: "three-cycle", main: "w.yaml", files: map[string][]byte{"w.yaml": []byte(loop("a.yaml")), "a.yaml": []byte(loop("b.yaml")), "b.yaml": []byte(loop("a.yaml"))}},
	}...)
}

func c11ChildUnit() *Unit {
	return &Unit{Name: "recursive-references", Run: func(deadline time.Time) *UnitResult {
		res := &UnitResult{Exhaustive: true, BoundCompleted: 1}
		self, _ := os.Executable()
		for i, c := range c11RecursiveCases() {
			res.Execs++
			childDir, derr := os.MkdirTemp(scratchRoot(), "c11c-")
			if derr != nil {
				res.HarnessErrors = append(res.HarnessErrors, derr.Error())
				continue
			}
			defer os.RemoveAll(childDir) // the child may die without cleaning up
			cmd := exec.Command(self, "c11-child", fmt.Sprint(i), childDir)
			var buf bytes.Buffer
			cmd.Stdout, cmd.Stderr = &buf, &buf
			done := make(chan error, 1)
			if err := cmd.Start(); err != nil {
				res.HarnessErrors = append(res.HarnessErrors, err.Error())
				continue
			}
			go func() { done <- cmd.Wait() }()
			var werr error
			timedOut := false
			select {
			case werr = <-done:
			case <-time.After(90 * time.Second):
				_ = cmd.Process.Kill()
				<-done
				timedOut = true
			}
			out := buf.String()
			switch {
			case timedOut:
				res.Violations = append(res.Violations, vrt.FoundViolation{Violation: vrt.Violation{Key: "recursive-references/does-not-return/" + c.name, Detail: "parsing " + c.name + " did not return within 90 s"}})
			case werr != nil:
				res.Violations = append(res.Violations, vrt.FoundViolation{Violation: vrt.Violation{Key: "recursive-references/process-dies/" + c.name,
					Detail: fmt.Sprintf("parsing a self-referential structure (%s) kills the process: %s", c.name, short(firstLines(out, 3), 400))}})
			default:
				res.Outcomes++
			}
		}
		res.Signatures = res.Execs
		res.Nontrivial = res.Execs
		res.Sample = map[string]any{"cases": len(c11RecursiveCases()), "kinds": []string{"self-referential YAML anchors as workflow / input / sub-workflow", "loop file named like the main workflow key", "self-reference", "two-cycle", "three-cycle"}}
		return res
	}}
}

func firstLines(s string, n int) string {
	l := strings.SplitN(s, "\n", n+1)
	if len(l) > n {
		l = l[:n]
	}
	return strings.Join(l, " | ")
}

func c11Child(idx int, dir string) {
	debug.SetMaxStack(64 << 20)
	c := c11RecursiveCases()[idx]
	if dir == "" {
		dir, _ = os.MkdirTemp(scratchRoot(), "c11c-")
		defer os.RemoveAll(dir)
	}
	o := c11Run(dir, c)
	if o.panicked != "" {
		fmt.Println("panic:", o.panicked)
		os.Exit(3)
	}
	if o.hang {
		fmt.Println("hang")
		os.Exit(4)
	}
	fmt.Println("returned:", o.parsed, short(o.err, 200))
}

func init() {
	register(&PropCheck{ID: "C11", Level: "exploration",
		Rule:        "(a) every byte string up to length 3 (4 in the thorough tier) over a 15-symbol YAML-significant alphabet as workflow file, sub-workflow file and input file; (b) every single-point structural corruption of 8 seed workflows (each node replaced by each of 70 YAML shapes incl. every engine tag on scalar/map/list, root-only / truncated / dangling expressions, each key removed, each key duplicated, each tag moved to its parent) and of a valid input document; (c) sub-workflow reference structures (depth 1-4, diamond, siblings, shared across levels, missing, sub-directory, non-string references; in a child process each: self/2-/3-cycles, a loop file named like the main workflow key, YAML anchors containing an alias to themselves as workflow / input / sub-workflow); a case is non-trivial when it parses or yields a distinct error class",
		Assumptions: []string{"finite alphabets and seeds only: the universal over all byte strings is not covered (random fuzzing is a different family and is not used)", "parsing uses the scripted deployer for the plugin schema probe", "a case that does not return within 30 s (90 s in the child) counts as an endless loop"},
		Budget:      budget(170*time.Second, 25*time.Minute),
		Units: func(tier string) []*Unit {
			var us []*Unit
			n := tierBound(tier, 3, 4)
			valid := progChain(2).YAML()
			loopParent := progForeach(subProg(), 1)
			strs := allStrings(c11Alphabet, n)
			chunk := 4000
			for i := 0; i < len(strs); i += chunk {
				j := i + chunk
				if j > len(strs) {
					j = len(strs)
				}
				part := strs[i:j]
				us = append(us, c11Unit(fmt.Sprintf("strings-as-workflow[%d:%d]", i, j), func() []*c11Case {
					var cs []*c11Case
					for _, s := range part {
						cs = append(cs, &c11Case{name: fmt.Sprintf("%q", s), main: "w.yaml", files: map[string][]byte{"w.yaml": s}})
					}
					return cs
				}))
				us = append(us, c11Unit(fmt.Sprintf("strings-as-input[%d:%d]", i, j), func() []*c11Case {
					var cs []*c11Case
					for _, s := range part {
						in := s
						if in == nil {
							in = []byte{}
						}
						cs = append(cs, &c11Case{name: fmt.Sprintf("input %q", s), main: "w.yaml", input: in, files: map[string][]byte{"w.yaml": []byte(valid)}})
					}
					return cs
				}))
				us = append(us, c11Unit(fmt.Sprintf("strings-as-subworkflow[%d:%d]", i, j), func() []*c11Case {
					var cs []*c11Case
					for _, s := range part {
						cs = append(cs, &c11Case{name: fmt.Sprintf("sub %q", s), main: "w.yaml", files: map[string][]byte{"w.yaml": []byte(loopParent.YAML()), "sub.yaml": s}})
					}
					return cs
				}))
			}
			for name, p := range c11Seeds() {
				name, p := name, p
				us = append(us, c11Unit("corrupt-"+name, func() []*c11Case {
					var cs []*c11Case
					files := p.Files()
					for i, b := range corruptDoc(p.YAML()) {
						f := map[string][]byte{"w.yaml": b}
						for n, c := range files {
							f[n] = c
						}
						cs = append(cs, &c11Case{name: fmt.Sprintf("%s#%d", name, i), main: "w.yaml", files: f, input: []byte("n: 1\n")})
					}
					// corrupt the sub-workflow file instead
					for n, c := range files {
						for i, b := range corruptDoc(string(c)) {
							f := map[string][]byte{"w.yaml": []byte(p.YAML()), n: b}
							cs = append(cs, &c11Case{name: fmt.Sprintf("%s/%s#%d", name, n, i), main: "w.yaml", files: f})
						}
					}
					return cs
				}))
			}
			us = append(us, c11Unit("corrupt-input", func() []*c11Case {
				var cs []*c11Case
				wf := (&c19Schema{}).programFor()
				for i, b := range corruptDoc("n: 1\ns: x\nflag: true\nl: [1, 2]\n") {
					cs = append(cs, &c11Case{name: fmt.Sprintf("input#%d", i), main: "w.yaml", input: b, files: map[string][]byte{"w.yaml": []byte(wf)}})
				}
				return cs
			}))
			us = append(us, c11Unit("subworkflow-structures", c11SubworkflowCases))
			us = append(us, c11ChildUnit())
			return us
		}})
}

// programFor: a workflow over the default input schema that reads every input field.
func (cs *c19Schema) programFor() string {
	p := &Program{Name: "readsinput", Steps: []Step{
		pstep("a", O("v", E("$.input.n"), "s", Opt{true, "$.input.s"}, "l", Opt{true, "$.input.l"})),
	}, Outputs: []Output{{"success", O("r", E(sv("a")), "f", Opt{true, "$.input.flag"})}}}
	return p.YAML()
}
