package main

import (
	"fmt"
	"strings"
	"time"

	"go.flow.arcalot.io/engine/internal/verif/env"
	"go.flow.arcalot.io/engine/internal/verif/vrt"
)

type exploreOpts struct {
	bound    int
	menu     vrt.Menu
	stalls   []int64
	cancelMS int64 // -1: no cancel
	mapMenu  bool
	race     bool
	maxExecs int
	cancelAnywhere bool // the caller's cancel may be placed at any scheduling point (one environment deviation)
}

var menuTSE = vrt.MenuOf(vrt.KPreempt, vrt.KSwitch, vrt.KSelect, vrt.KEnv)
var menuTSME = vrt.MenuOf(vrt.KPreempt, vrt.KSwitch, vrt.KSelect, vrt.KEnv, vrt.KMap)

// scenarioUnit explores one scenario with the "run" driver and the given oracles.
func scenarioUnit(s *Scenario, opt exploreOpts, oracles ...Oracle) *Unit {
	return &Unit{Name: s.Name, Run: func(deadline time.Time) *UnitResult {
		res := &UnitResult{}
		if s.ParseOnly {
			if s.Ref == nil {
				s.Ref = &RefRun{}
			}
		} else if _, err := s.prepared(); err != nil && s.MayReject {
			res.Execs, res.Signatures, res.Outcomes, res.Exhaustive, res.BoundCompleted = 1, 1, 1, true, opt.bound
			res.OutcomeSample = []string{"rejected by Prepare: " + short(err.Error(), 120)}
			return res
		} else if err != nil {
			res.HarnessErrors = append(res.HarnessErrors, "scenario "+s.Name+" does not prepare: "+err.Error())
			return res
		}
		if s.Ref == nil {
			s.Ref = evalProgram(s.Prog, s.Script, s.Input)
		}
		var obs Obs
		body := runBody(s, &obs, opt.cancelMS)
		var hook func()
		if opt.cancelAnywhere {
			hook = func() {
				if obs.cancelFn != nil && !obs.Cancelled && !obs.Returned && vrt.Choose("harness/cancel-here", 2) == 1 {
					obs.cancelFn()
				}
			}
		}
		cfg := vrt.ExploreCfg{
			Exec:     vrt.Config{Stalls: opt.stalls, StallMenu: len(opt.stalls) > 0, MapMenu: opt.mapMenu || opt.menu[vrt.KMap], Race: opt.race || raceMode, PointHook: hook},
			Bound:    capBound(opt.bound),
			Menu:     opt.menu,
			Deadline: deadline,
			MaxExecs: opt.maxExecs,
			Check: func(x *vrt.Exec) []vrt.Violation {
				var out []vrt.Violation
				for _, o := range oracles {
					out = append(out, o(s, x, &obs)...)
				}
				if raceMode {
					out = append(out, raceViolations(x)...)
				}
				return out
			},
			Outcome: func(x *vrt.Exec) string { return outcomeString(&obs) },
		}
		if len(opt.stalls) > 0 {
			cfg.Menu[vrt.KStall] = true
		}
		if replaySchedule != nil {
			x := vrt.Replay(cfg.Exec, replaySchedule, body)
			for _, v := range cfg.Check(x) {
				res.Violations = append(res.Violations, vrt.FoundViolation{Violation: v, Schedule: replaySchedule, Trace: vrt.FormatTrace(x.Trace())})
			}
			return res
		}
		st := vrt.Explore(cfg, body)
		res.Execs = st.Execs
		res.Points = st.Points
		res.Signatures = st.Signatures
		res.Outcomes = len(st.Outcomes)
		for k := range st.Outcomes {
			if len(res.OutcomeSample) < 4 {
				res.OutcomeSample = append(res.OutcomeSample, short(k, 160))
			}
		}
		res.BoundCompleted = st.BoundCompleted
		res.Exhaustive = st.Exhaustive
		res.CapHit = st.CapHit
		res.Violations = st.Violations
		res.HarnessErrors = st.HarnessErrors
		res.Sample = map[string]any{"scenario": s.String(), "reference": s.Ref.Summary()}
		return res
	}}
}

func tierBound(tier string, quick, thorough int) int {
	if tier == "thorough" {
		return thorough
	}
	return quick
}

func budget(quick, thorough time.Duration) func(string) time.Duration {
	return func(tier string) time.Duration {
		if tier == "thorough" {
			return thorough
		}
		return quick
	}
}

var commonAssumptions = []string{
	"sequential consistency; scheduling points at every rewritten sync/atomic/channel/select/context/timer operation (race freedom is C17's subject)",
	"plugins, deployer and the ATP wire are the scripted in-process models of rt/env (conformance-replayed against the real ATP client/server)",
	"virtual time: timers fire only when no goroutine can run (plus explicit stall deviations where the check says so)",
	"third-party libraries (dgraph, pluginsdk schema, expressions, yaml) execute atomically between scheduling points and are trusted",
	"interleavings needing more deviations from the default schedule than bound_completed are not covered",
}

func runScenarios(tier string, noBlocked bool) []*Scenario {
	alts := altsBasic
	limit := 64
	if tier == "thorough" {
		alts = append(append([]stepAlt{}, altsBasic...), altsMore...)
		limit = 200
	}
	scs := buildScenarios(catalogue(), alts, limit)
	// a running step that ignores cancellation is stopped by a producer and has to be force-closed
	for _, p := range tagPrograms() {
		if p.Name == "stopforce" || p.Name == "stopforce2" {
			scs = append(scs, buildScenarios([]*Program{p}, []stepAlt{altsBasic[0], altsMore[0], altsMore[1]}, 40)...)
		}
		// one-of over independent steps / over objects of the data model itself
		if p.Name == "oneofsteps" || p.Name == "oneofstage" || p.Name == "oneofinput" {
			scs = append(scs, buildScenarios([]*Program{p}, []stepAlt{altsBasic[0], altsBasic[1], altsBasic[2], {"slow", env.StepScript{RunMS: 25}}}, 70)...)
		}
	}
	scs = append(scs, hangScenarios()...)
	var out []*Scenario
	seen := map[string]bool{}
	for _, s := range scs {
		if seen[s.Name] {
			continue // the same program x vector reached through two scenario families
		}
		seen[s.Name] = true
		s.Ref = evalProgram(s.Prog, s.Script, s.Input)
		if noBlocked && ((s.Ref.ResultID == "" && !s.Ref.ResultErr) || s.Ref.MayHang) {
			continue // the run legitimately waits for a never-ending step; covered by the cancel driver
		}
		out = append(out, s)
	}
	return out
}

func init() {
	register(&PropCheck{ID: "C01", Level: "model_checking",
		Rule:        "every schedule within the deviation bound (thread choice, select case, environment answers) of every catalogue program x outcome vector; an execution is one state-space path, states = distinct happens-before signatures",
		Assumptions: commonAssumptions,
		Budget:      budget(150*time.Second, 25*time.Minute),
		Units: func(tier string) []*Unit {
			var us []*Unit
			for _, s := range runScenarios(tier, true) {
				us = append(us, scenarioUnit(s, exploreOpts{bound: tierBound(tier, 1, 2), menu: menuTSE, cancelMS: -1}, oracleC01))
			}
			// outputs fed by more than 20 steps
			for _, s := range wideScenarios(tier) {
				us = append(us, scenarioUnit(s, exploreOpts{bound: tierBound(tier, 0, 1), menu: menuTSE, cancelMS: -1}, oracleC01, oracleC03))
			}
			return us
		}})
	register(&PropCheck{ID: "C03", Level: "model_checking",
		Rule:        "result of every explored execution compared with the reference interpreter's unique result and with the expressions evaluated over the outputs the steps actually reported",
		Assumptions: commonAssumptions,
		Budget:      budget(150*time.Second, 25*time.Minute),
		Units: func(tier string) []*Unit {
			var us []*Unit
			for _, s := range runScenarios(tier, true) {
				us = append(us, scenarioUnit(s, exploreOpts{bound: tierBound(tier, 1, 2), menu: menuTSME, cancelMS: -1}, oracleC03))
				// quick tier: two deviations for the smallest programs and for the vectors with a deployment
				// that takes time (what the detector's 30 ms window interacts with)
				if tier != "thorough" && (s.Class == "single" || (s.Class == "chain2" && strings.Contains(s.Name, "~deploy") && strings.Count(s.Name, "=success") == 2)) {
					s2 := *s
					s2.Name = s.Name + "/bound2"
					us = append(us, scenarioUnit(&s2, exploreOpts{bound: 2, menu: menuTSE, cancelMS: -1, maxExecs: 60000}, oracleC03, oracleC01))
				}
			}
			return us
		}})
	register(&PropCheck{ID: "C02", Level: "model_checking",
		Rule:        "every stage input and plugin input recorded on every explored schedule is re-derived by evaluating the program's expressions over the outputs the producers had emitted up to that ledger position",
		Assumptions: commonAssumptions,
		Budget:      budget(150*time.Second, 25*time.Minute),
		Units: func(tier string) []*Unit {
			var us []*Unit
			for _, s := range runScenarios(tier, true) {
				us = append(us, scenarioUnit(s, exploreOpts{bound: tierBound(tier, 1, 2), menu: menuTSME, cancelMS: -1}, oracleC02))
			}
			return us
		}})
	register(&PropCheck{ID: "C04", Level: "model_checking",
		Rule:        "every plugin execution recorded on every explored schedule must be preceded by its start input, a true enable decision, produced prerequisites and no earlier stop condition; compared with the reference interpreter's may-run set when the meaning is unique",
		Assumptions: commonAssumptions,
		Budget:      budget(150*time.Second, 25*time.Minute),
		Units: func(tier string) []*Unit {
			var us []*Unit
			for _, s := range runScenarios(tier, true) {
				us = append(us, scenarioUnit(s, exploreOpts{bound: tierBound(tier, 1, 2), menu: menuTSME, cancelMS: -1}, oracleC04))
			}
			return us
		}})
	register(&PropCheck{ID: "C05", Level: "model_checking",
		Rule:        "deploy/close ledger and live-thread set evaluated at the instant Execute returns, on every explored schedule",
		Assumptions: commonAssumptions,
		Budget:      budget(150*time.Second, 25*time.Minute),
		Units: func(tier string) []*Unit {
			var us []*Unit
			for _, s := range runScenarios(tier, true) {
				us = append(us, scenarioUnit(s, exploreOpts{bound: tierBound(tier, 1, 2), menu: menuTSE, cancelMS: -1}, oracleC05))
			}
			// run-time faults of schema reading and of closing (start failure, close errors)
			faultAlts := []stepAlt{altsBasic[0], altsBasic[2], {"schemafail", env.StepScript{ReadSchemaFails: true}}, {"closefail", env.StepScript{ClientCloseFail: true, ConnCloseFails: true}},
				{"crash-closefail", env.StepScript{Run: env.RunCrash, ClientCloseFail: true, ConnCloseFails: true}}, {"hang-closefail", env.StepScript{Run: env.RunHangCancel, ConnCloseFails: true}}}
			for _, s := range buildScenarios([]*Program{progSingle(), progChain(2), progFanIn(), progForeach(subProg(), 2), progStopProducer()}, faultAlts, 40) {
				s.Ref = evalProgram(s.Prog, s.Script, s.Input)
				if (s.Ref.ResultID == "" && !s.Ref.ResultErr) || s.Ref.MayHang {
					continue
				}
				s.Name += "/faults"
				us = append(us, scenarioUnit(s, exploreOpts{bound: tierBound(tier, 1, 2), menu: menuTSE, cancelMS: -1}, oracleC05, oracleC01))
			}
			// parsing: the temporary deployments made to read plugin schemas, under probe faults
			for _, s := range parseScenarios(tier) {
				us = append(us, scenarioUnit(s, exploreOpts{bound: tierBound(tier, 1, 2), menu: menuTSE, cancelMS: -1}, oracleC05, oracleC07))
			}
			// the same oracle at every cancellation point
			for _, s := range buildScenarios(cancelPrograms(), altsCancel, tierBound(tier, 30, 120)) {
				s.Ref = evalProgram(s.Prog, s.Script, s.Input)
				s.Name += "/cancel-anywhere"
				us = append(us, scenarioUnit(s, exploreOpts{bound: tierBound(tier, 1, 2), menu: menuTSE, cancelMS: -1, cancelAnywhere: true}, oracleC05))
				s2 := *s
				s2.Name = s.Name + "/cancel@7ms"
				us = append(us, scenarioUnit(&s2, exploreOpts{bound: tierBound(tier, 1, 2), menu: menuTSE, cancelMS: 7}, oracleC05))
			}
			return us
		}})
	register(&PropCheck{ID: "C08", Level: "model_checking",
		Rule:        "every stage input, every stage output reported by a step and the returned workflow output, on every explored schedule, is validated against the schema the prepared workflow itself declares for it; 'bug:' errors are violations",
		Assumptions: commonAssumptions,
		Budget:      budget(150*time.Second, 25*time.Minute),
		Units: func(tier string) []*Unit {
			var us []*Unit
			for _, s := range runScenarios(tier, true) {
				us = append(us, scenarioUnit(s, exploreOpts{bound: tierBound(tier, 1, 2), menu: menuTSE, cancelMS: -1}, oracleC08))
			}
			// programs whose typing is questionable: preparation may refuse them; if it accepts one, every
			// value of every run must still match the schemas it declared
			for _, p := range typingPrograms() {
				for _, sc := range vectors(p, altsBasic[:3], 9) {
					s := &Scenario{Class: p.Name, Prog: p, Script: sc, Input: map[string]any{"n": 5, "s": "x", "flag": true, "l": []any{1, 2}}, MayReject: true}
					s.Name = p.Name + "/" + vecName(sc) + "/typing"
					s.Ref = &RefRun{}
					us = append(us, scenarioUnit(s, exploreOpts{bound: tierBound(tier, 1, 2), menu: menuTSE, cancelMS: -1}, oracleC08, oracleC07))
				}
			}
			// misbehaving plugins: their data must not reach expressions unvalidated
			for _, s := range buildScenarios([]*Program{progSingle(), progChain(2), progOneOf2()}, []stepAlt{altsBasic[0], {"badid", env.StepScript{Run: env.RunBadOutputID}}, {"baddata", env.StepScript{Run: env.RunBadOutputData}}}, 30) {
				s.Ref = &RefRun{}
				s.Name += "/misbehaving"
				us = append(us, scenarioUnit(s, exploreOpts{bound: tierBound(tier, 1, 2), menu: menuTSE, cancelMS: -1}, oracleC08plugin))
			}
			return us
		}})
	register(&PropCheck{ID: "C06", Level: "model_checking",
		Rule:        "the caller's cancel is placed at every scheduling point of the default schedule (one environment deviation) and at fixed virtual instants, combined with thread/select deviations up to the bound; return time, signal/close ledger and result are checked on every execution",
		Assumptions: commonAssumptions,
		Budget:      budget(170*time.Second, 25*time.Minute),
		Units: func(tier string) []*Unit {
			var us []*Unit
			scs := buildScenarios(cancelPrograms(), altsCancel, tierBound(tier, 30, 120))
			for _, s := range scs {
				s.Ref = evalProgram(s.Prog, s.Script, s.Input)
				us = append(us, scenarioUnit(s, exploreOpts{bound: tierBound(tier, 1, 2), menu: menuTSE, cancelMS: -1, cancelAnywhere: true}, oracleC06, oracleC03cancel, oracleC05))
				// quick tier: the cancel plus one more deviation for the one-step programs (windows between two
				// checks of one step need the cancel and a thread switch)
				if tier != "thorough" && strings.HasPrefix(s.Class, "single") {
					s3 := *s
					s3.Name = s.Name + "/bound2"
					us = append(us, scenarioUnit(&s3, exploreOpts{bound: 2, menu: menuTSE, cancelMS: -1, cancelAnywhere: true, maxExecs: 60000}, oracleC06, oracleC03cancel, oracleC05))
				}
				for _, at := range []int64{7, 25} {
					s2 := *s
					s2.Name = fmt.Sprintf("%s/cancel@%dms", s.Name, at)
					us = append(us, scenarioUnit(&s2, exploreOpts{bound: tierBound(tier, 1, 2), menu: menuTSE, cancelMS: at}, oracleC06, oracleC03cancel, oracleC05))
				}
			}
			return us
		}})
	register(&PropCheck{ID: "C09", Level: "model_checking",
		Rule:        "stall deviations: at every scheduling point of the default schedule one goroutine is made unschedulable for D in {1,6,11,35,5001,12000} virtual ms while timers and the other goroutines proceed (bound 1; pairs at bound 2), plus preemptions at bound 1; programs whose meaning fixes a single result",
		Assumptions: commonAssumptions,
		Budget:      budget(240*time.Second, 28*time.Minute),
		Units: func(tier string) []*Unit {
			var us []*Unit
			stalls := []int64{1, 6, 11, 35, 5001, 12000}
			for _, s := range runScenarios("quick", true) {
				if !s.Ref.Unique {
					continue
				}
				if tier != "thorough" && strings.Contains(s.Name, "h=hang") && !strings.Contains(s.Name, "a=success,b=success") && !strings.Contains(s.Name, "a=success,h=") {
					continue // quick tier: the never-ending sibling only next to the all-success vector
				}
				s1 := *s
				s1.Name = s.Name + "/stalls"
				us = append(us, scenarioUnit(&s1, exploreOpts{bound: tierBound(tier, 1, 2), menu: vrt.MenuOf(vrt.KStall), stalls: stalls, cancelMS: -1, maxExecs: tierBound(tier, 6000, 400000)}, oracleC09))
				if tier == "thorough" {
					s2 := *s
					s2.Name = s.Name + "/stall+preempt"
					us = append(us, scenarioUnit(&s2, exploreOpts{bound: 2, menu: menuTSE, stalls: []int64{35}, cancelMS: -1, maxExecs: 400000}, oracleC09))
				}
			}
			return us
		}})
	register(&PropCheck{ID: "C15", Level: "model_checking",
		Rule:        "programs with wait-optional / soft-optional / one-of / or-disabled tags in step inputs, wait_for and outputs (nested in maps and lists, several per object) x source outcomes (produced, error output, crash, deployment failure, disabled, never finishing) x all schedules and map orders within the deviation bound; stage inputs and results are re-derived with the tag semantics over the ledger and compared with the reference interpreter",
		Assumptions: commonAssumptions,
		Budget:      budget(170*time.Second, 28*time.Minute),
		Units: func(tier string) []*Unit {
			var us []*Unit
			alts := append(append([]stepAlt{}, altsBasic[:4]...), stepAlt{"hang", env.StepScript{Run: env.RunHangCancel}}, stepAlt{"slow", env.StepScript{RunMS: 25}}, stepAlt{"hangx", env.StepScript{Run: env.RunHangIgnore}})
			for _, p := range tagPrograms() {
				for _, in := range tagInputs(p) {
					for _, sc := range vectors(p, alts, tierBound(tier, 40, 220)) {
						s := &Scenario{Class: p.Name, Prog: p, Script: sc, Input: in}
						s.Name = p.Name + "/" + vecName(sc) + "/" + canonStr(in)
						s.Ref = evalProgram(p, sc, in)
						if (s.Ref.ResultID == "" && !s.Ref.ResultErr) || s.Ref.MayHang {
							continue
						}
						us = append(us, scenarioUnit(s, exploreOpts{bound: tierBound(tier, 1, 2), menu: menuTSME, cancelMS: -1}, oracleC02, oracleC03, oracleC04, oracleC01))
					}
				}
			}
			return us
		}})
	register(&PropCheck{ID: "C17", Level: "model_checking",
		Rule:        "the executions of the run, cancel, provider-level, loop and overlapping-run checks (their quick bounds) are repeated on a build with memory-access probes on every field of the engine's own struct types reached through a pointer, every map and slice element and every package variable; a vector-clock (happens-before) detector reports two accesses to one location, one of them a write, that no tracked synchronisation orders, on any explored schedule whether or not the accesses were adjacent",
		Assumptions: append([]string{"reads that follow a call inside one statement and loop conditions are probed where they are evaluated (rewritten to *vrt.AccR(site, &x.f, name)); accesses through pointers to fields taken with & and passed elsewhere are not followed", "locations inside third-party libraries are not probed; their internal locks add no happens-before edges"}, commonAssumptions...),
		Budget:      budget(175*time.Second, 28*time.Minute),
		Units: func(tier string) []*Unit {
			raceMode = true
			var us []*Unit
			pick := func(id string, every int, maxUnits int) {
				// the probes build is an order of magnitude slower: the thorough tier takes every unit of the
				// other checks' quick tiers (the quick tier every 2nd-4th) and only C12's own thorough units
				srcTier := tier
				if tier == "thorough" && id != "C12" {
					srcTier = "quick"
				}
				src := registry[id].Units(srcTier)
				n := 0
				for i, u := range src {
					// loop steps that end without running (disabled, closed early) next to live steps are rare
					// paths of their own: always included
					if (i%every != 0 && !strings.Contains(u.Name, "loopenabledlit") && !strings.Contains(u.Name, "loopsibling")) || n >= maxUnits {
						continue
					}
					n++
					u := u
					us = append(us, &Unit{Name: id + ":" + u.Name, Run: func(deadline time.Time) *UnitResult {
						res := u.Run(deadline)
						var keep []vrt.FoundViolation
						for _, v := range res.Violations {
							if strings.HasPrefix(v.Key, "race/") {
								keep = append(keep, v)
							}
						}
						res.Violations = keep
						return res
					}})
				}
			}
			q := tier != "thorough"
			pick("C01", tierBound(tier, 3, 1), 100000)
			pick("C06", tierBound(tier, 4, 1), 100000)
			pick("C12", tierBound(tier, 2, 1), 100000)
			pick("C13", tierBound(tier, 3, 1), 100000)
			pick("C14", 1, 100000)
			_ = q
			return us
		}})
	register(&PropCheck{ID: "C07", Level: "model_checking",
		Rule:        "no goroutine panics and no fatal runtime misuse on any explored schedule; unevaluable expressions end the run with an error",
		Assumptions: commonAssumptions,
		Budget:      budget(150*time.Second, 25*time.Minute),
		Units: func(tier string) []*Unit {
			var us []*Unit
			for _, s := range runScenarios(tier, true) {
				us = append(us, scenarioUnit(s, exploreOpts{bound: tierBound(tier, 1, 2), menu: menuTSE, cancelMS: -1}, oracleC07))
			}
			// plugins that answer with an undeclared output id / ill-typed data (not built with the SDK)
			badAlts := []stepAlt{altsBasic[0], {"badid", env.StepScript{Run: env.RunBadOutputID}}, {"baddata", env.StepScript{Run: env.RunBadOutputData}}}
			for _, s := range buildScenarios([]*Program{progSingle(), progChain(2), progFanIn(), progOneOf2(), progOptional(), progForeach(subProg(), 2), progStopProducer()}, badAlts, 30) {
				s.Ref = &RefRun{}
				s.Name += "/misbehaving"
				us = append(us, scenarioUnit(s, exploreOpts{bound: tierBound(tier, 1, 2), menu: menuTSE, cancelMS: -1}, oracleC07, oracleC01plain, oracleC05))
			}
			// expressions that fail at run time, over an input alphabet
			alts := altsBasic[:3]
			for _, p := range evalFailPrograms() {
				for _, in := range evalFailInputs() {
					for _, sc := range vectors(p, alts, 9) {
						s := &Scenario{Class: p.Name, Prog: p, Script: sc, Input: in}
						s.Name = p.Name + "/" + vecName(sc) + "/" + canonStr(in)
						s.Ref = evalProgram(p, sc, in)
						us = append(us, scenarioUnit(s, exploreOpts{bound: tierBound(tier, 1, 2), menu: menuTSME, cancelMS: -1}, oracleC07, oracleC01))
					}
				}
			}
			return us
		}})
}

// wideScenarios: one output fed by 22 / 25 steps under uniform and single-deviation outcome vectors.
func wideScenarios(tier string) []*Scenario {
	var out []*Scenario
	sizes := []int{22}
	if tier == "thorough" {
		sizes = []int{22, 25}
	}
	for _, n := range sizes {
		p := progFanInN(n)
		ids := pluginIDs(p)
		mk := func(name string, f func(i int) env.StepScript) {
			sc := &env.Script{Steps: map[string]*env.StepScript{}}
			for i, id := range ids {
				st := f(i)
				sc.Steps[id] = &st
			}
			s := &Scenario{Class: p.Name, Prog: p, Script: sc, Input: map[string]any{"n": 5}}
			s.Name = p.Name + "/" + name
			s.Ref = evalProgram(p, sc, s.Input)
			out = append(out, s)
		}
		ok := env.StepScript{}
		mk("all-ok", func(int) env.StepScript { return ok })
		mk("all-error", func(int) env.StepScript { return env.StepScript{Run: env.RunErrorOut} })
		mk("all-crash", func(int) env.StepScript { return env.StepScript{Run: env.RunCrash} })
		mk("all-nodeploy", func(int) env.StepScript { return env.StepScript{Deploy: env.DeployFail} })
		mk("first-error", func(i int) env.StepScript {
			if i == 0 {
				return env.StepScript{Run: env.RunErrorOut}
			}
			return ok
		})
		mk("last-crash", func(i int) env.StepScript {
			if i == n-1 {
				return env.StepScript{Run: env.RunCrash}
			}
			return ok
		})
		mk("mixed", func(i int) env.StepScript {
			switch i % 4 {
			case 1:
				return env.StepScript{Run: env.RunErrorOut}
			case 2:
				return env.StepScript{Run: env.RunCrash}
			case 3:
				return env.StepScript{Deploy: env.DeployFail}
			}
			return ok
		})
	}
	// more than 20 steps that wait behind a gate whose failure ends the run (they are all still waiting
	// for input when the engine aborts)
	for _, n := range sizes {
		p := progGateFanOut(n)
		for _, g := range []struct {
			name string
			sc   env.StepScript
		}{{"gate-ok", env.StepScript{}}, {"gate-error", env.StepScript{Run: env.RunErrorOut}}, {"gate-crash", env.StepScript{Run: env.RunCrash}}, {"gate-nodeploy", env.StepScript{Deploy: env.DeployFail}}} {
			g := g
			sc := &env.Script{Steps: map[string]*env.StepScript{"g": &g.sc}}
			s := &Scenario{Class: p.Name, Prog: p, Script: sc, Input: map[string]any{"n": 5}}
			s.Name = p.Name + "/" + g.name
			s.Ref = evalProgram(p, sc, s.Input)
			out = append(out, s)
		}
	}
	return out
}

// parseScenarios: Prepare of catalogue programs while the schema probe of each plugin (or of all)
// fails to deploy, deploys slowly, cannot be read, or cannot be closed.
func parseScenarios(tier string) []*Scenario {
	faults := []stepAlt{
		{"probe-ok", env.StepScript{}},
		{"probe-nodeploy", env.StepScript{ProbeDeployFail: true}},
		{"probe-readfail", env.StepScript{ReadSchemaFails: true}},
		{"probe-closefail", env.StepScript{ClientCloseFail: true, ConnCloseFails: true}},
		{"probe-readfail-closefail", env.StepScript{ReadSchemaFails: true, ClientCloseFail: true, ConnCloseFails: true}},
		{"probe-slow", env.StepScript{DeployMS: 20}},
	}
	progs := []*Program{progSingle(), progChain(2), progFanIn(), progForeach(subProg(), 2), progOneOf2(), progDeployExpr()}
	if tier == "thorough" {
		progs = catalogue()
	}
	var out []*Scenario
	for _, p := range progs {
		for _, sc := range vectors(p, faults, 40) {
			s := &Scenario{Class: "parse-" + p.Name, Prog: p, Script: sc, Input: map[string]any{"n": 5}, ParseOnly: true}
			s.Name = "parse-" + p.Name + "/" + parseVecName(sc)
			out = append(out, s)
		}
	}
	return out
}

func parseVecName(sc *env.Script) string {
	var parts []string
	for _, k := range sortedKeys(sc.Steps) {
		st := sc.Steps[k]
		n := "ok"
		switch {
		case st.ProbeDeployFail:
			n = "nodeploy"
		case st.ReadSchemaFails && st.ConnCloseFails:
			n = "readfail+closefail"
		case st.ReadSchemaFails:
			n = "readfail"
		case st.ConnCloseFails:
			n = "closefail"
		case st.DeployMS > 0:
			n = "slow"
		}
		parts = append(parts, k+"="+n)
	}
	return strings.Join(parts, ",")
}

// typingPrograms: output / input shapes on the border of what the type inference accepts.
func typingPrograms() []*Program {
	two := func(name string, out Node) *Program {
		return &Program{Name: name, Steps: []Step{pstep("a", O("v", E("$.input.n"))), pstep("b", O("v", I(2)))},
			Outputs: []Output{{"success", out}}}
	}
	return []*Program{
		two("mixedlist2", O("l", List{[]Node{E("$.input.n"), E(ss("a"))}})),
		two("mixedlist3", O("l", List{[]Node{E(sv("a")), E(sv("b")), E(ss("a"))}})),
		two("mixedlistmid", O("l", List{[]Node{E(sv("a")), E(ss("b")), E(sv("b"))}})),
		two("mixedlistnested", O("m", O("l", List{[]Node{List{[]Node{E(sv("a"))}}, List{[]Node{E(ss("a"))}}}}))),
		two("mixedlistobj", O("l", List{[]Node{O("k", E(sv("a"))), O("k", E(ss("b")))}})),
		two("samelist", O("l", List{[]Node{E(sv("a")), E(sv("b")), E("$.input.n")}})),
		two("listofoutputs", O("l", List{[]Node{E("$.steps.a.outputs.success"), E("$.steps.b.outputs.success")}})),
		two("listoptional", O("l", List{[]Node{E(sv("a")), Opt{true, sv("b")}}})),
	}
}
