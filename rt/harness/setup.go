package main

import (
	"fmt"

	log "go.arcalot.io/log/v2"
	"go.flow.arcalot.io/engine/config"
	"go.flow.arcalot.io/engine/internal/builtinfunctions"
	"go.flow.arcalot.io/engine/internal/step"
	"go.flow.arcalot.io/engine/internal/step/foreach"
	"go.flow.arcalot.io/engine/internal/step/plugin"
	stepregistry "go.flow.arcalot.io/engine/internal/step/registry"
	"go.flow.arcalot.io/engine/internal/verif/env"
	"go.flow.arcalot.io/engine/workflow"
)

var quietLogger = log.NewLogger(log.LevelError, log.NewNOOPLogger())

type wfFactory struct {
	reg step.Registry
	cfg *config.Config
}

func (f *wfFactory) yaml() (workflow.YAMLConverter, error) {
	if f.reg == nil {
		return nil, fmt.Errorf("registry not ready")
	}
	return workflow.NewYAMLConverter(f.reg), nil
}

func (f *wfFactory) exec(logger log.Logger) (workflow.Executor, error) {
	if f.reg == nil {
		return nil, fmt.Errorf("registry not ready")
	}
	return workflow.NewExecutor(logger, f.cfg, f.reg, builtinfunctions.GetFunctions())
}

// newRegistry builds the step registry over the scripted deployer (plugin + foreach providers).
func newRegistry() (step.Registry, *config.Config, error) {
	// custom logging of produced outputs is switched on so that this part of the run loop is exercised
	cfg := &config.Config{LoggedOutputConfigs: map[string]*config.StepOutputLogConfig{
		"success": {LogLevel: log.LevelDebug}, "error": {LogLevel: log.LevelDebug}, "cancelled_early": {LogLevel: log.LevelDebug},
	}}
	pp, err := plugin.New(quietLogger, env.NewRegistry(), map[string]any{
		"builtin": map[string]any{"deployer_name": "scripted"},
	})
	if err != nil {
		return nil, nil, err
	}
	f := &wfFactory{cfg: cfg}
	fp, err := foreach.New(quietLogger, f.yaml, f.exec)
	if err != nil {
		return nil, nil, err
	}
	reg, err := stepregistry.New(recProvider{pp}, recProvider{fp})
	if err != nil {
		return nil, nil, err
	}
	f.reg = reg
	return reg, cfg, nil
}

// prepare converts and prepares a workflow over the scripted environment.
func prepare(text string, files map[string][]byte) (workflow.ExecutableWorkflow, error) {
	reg, cfg, err := newRegistry()
	if err != nil {
		return nil, err
	}
	wf, err := workflow.NewYAMLConverter(reg).FromYAML([]byte(text))
	if err != nil {
		return nil, err
	}
	ex, err := workflow.NewExecutor(quietLogger, cfg, reg, builtinfunctions.GetFunctions())
	if err != nil {
		return nil, err
	}
	if files == nil {
		files = map[string][]byte{}
	}
	return ex.Prepare(wf, files)
}

// sharedPreparer parses the text once and returns a function that prepares that same parsed workflow
// object again and again with one executor (an API use the engine allows: Prepare takes the parsed
// workflow, it does not own it).
func sharedPreparer(text string, files map[string][]byte) (func() (workflow.ExecutableWorkflow, error), error) {
	reg, cfg, err := newRegistry()
	if err != nil {
		return nil, err
	}
	wf, err := workflow.NewYAMLConverter(reg).FromYAML([]byte(text))
	if err != nil {
		return nil, err
	}
	ex, err := workflow.NewExecutor(quietLogger, cfg, reg, builtinfunctions.GetFunctions())
	if err != nil {
		return nil, err
	}
	if files == nil {
		files = map[string][]byte{}
	}
	return func() (workflow.ExecutableWorkflow, error) { return ex.Prepare(wf, files) }, nil
}
