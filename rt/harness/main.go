package main

import (
	"bufio"
	"crypto/sha1"
	"encoding/json"
	"fmt"
	"os"
	"os/exec"
	"path/filepath"
	"regexp"
	"runtime"
	"sort"
	"strconv"
	"strings"
	"sync"
	"time"

	"go.flow.arcalot.io/engine/internal/verif/vrt"
)

// UnitResult is what one work unit (usually: one scenario explored to a bound) reports.
type UnitResult struct {
	Name           string               `json:"name"`
	Execs          int                  `json:"execs"`
	Points         int64                `json:"points"`
	Signatures     int                  `json:"signatures"`
	Outcomes       int                  `json:"distinct_outcomes"`
	OutcomeSample  []string             `json:"outcome_sample,omitempty"`
	BoundCompleted int                  `json:"bound_completed"`
	Capped         bool                 `json:"capped,omitempty"`  // explored with a bound below the unit's own (first thorough pass)
	CapHit         bool                 `json:"cap_hit,omitempty"` // the unit's execution cap, not its deadline, ended the exploration
	Exhaustive     bool                 `json:"exhaustive"`
	Violations     []vrt.FoundViolation `json:"violations,omitempty"`
	HarnessErrors  []string             `json:"harness_errors,omitempty"`
	Sample         any                  `json:"sample,omitempty"`
	Validated      int                  `json:"validated,omitempty"`
	WallMS         int64                `json:"wall_ms"`
	Nontrivial     int                  `json:"nontrivial,omitempty"`
	Poisoned       bool                 `json:"poisoned,omitempty"` // the worker must be restarted (a case is stuck in it)
}

// Unit is one piece of work of a check.
type Unit struct {
	Name string
	Run  func(deadline time.Time) *UnitResult
}

// PropCheck describes how one property is decided.
type PropCheck struct {
	ID          string
	Level       string
	Rule        string
	Assumptions []string
	Units       func(tier string) []*Unit
	Budget      func(tier string) time.Duration
}

var registry = map[string]*PropCheck{}

func register(p *PropCheck) { registry[p.ID] = p }

func main() {
	if len(os.Args) < 2 {
		usage()
	}
	switch os.Args[1] {
	case "worker":
		worker(os.Args[2], os.Args[3])
	case "check":
		os.Exit(coordinator(os.Args[2], os.Args[3]))
	case "replay":
		os.Exit(replay(os.Args[2]))
	case "c11-child":
		n, _ := strconv.Atoi(os.Args[2])
		dir := ""
		if len(os.Args) > 3 {
			dir = os.Args[3]
		}
		c11Child(n, dir)
	case "probe-format":
		n, _ := strconv.ParseInt(os.Args[2], 10, 64)
		probeFormat(n)
	case "conform":
		n, probs := conformance()
		fmt.Printf("conformance: %d traces replayed against the real ATP client/server, %d disagreements\n", n, len(probs))
		for _, p := range probs {
			fmt.Println("  ", p)
		}
		if len(probs) > 0 {
			os.Exit(2)
		}
	case "known-test":
		// known-test <prop>: reads violation keys from stdin, prints those no listed finding covers
		known := loadKnown(os.Args[2])
		sc := bufio.NewScanner(os.Stdin)
		sc.Buffer(make([]byte, 1<<20), 1<<20)
		total, uncovered := 0, 0
		for sc.Scan() {
			key := strings.TrimSpace(sc.Text())
			if key == "" {
				continue
			}
			total++
			covered := false
			for _, k := range known {
				if knownMatches(k, key) {
					covered = true
				}
			}
			if !covered {
				uncovered++
				fmt.Println(key)
			}
		}
		fmt.Printf("keys=%d uncovered=%d\n", total, uncovered)
	case "list":
		pc := registry[os.Args[2]]
		for i, u := range pc.Units(os.Args[3]) {
			fmt.Println(i, u.Name)
		}
	case "yaml":
		for _, p := range catalogue() {
			if p.Name == os.Args[2] {
				fmt.Print(p.YAML())
				for f, b := range p.Files() {
					fmt.Printf("--- %s\n%s", f, b)
				}
			}
		}
	default:
		usage()
	}
}

func usage() {
	fmt.Println("usage: verifh check <Cxx> <quick|thorough> | worker <Cxx> <tier> | replay <file> | list <Cxx> <tier>")
	os.Exit(2)
}

// worker reads unit indexes on stdin and writes one JSON result line per unit.
func worker(prop, tier string) {
	pc := registry[prop]
	if pc == nil {
		fmt.Fprintln(os.Stderr, "unknown property", prop)
		os.Exit(2)
	}
	units := onlyUnits(pc.Units(tier))
	in := bufio.NewScanner(os.Stdin)
	out := bufio.NewWriter(os.Stdout)
	for in.Scan() {
		parts := strings.Fields(in.Text())
		if len(parts) < 2 {
			continue
		}
		idx, _ := strconv.Atoi(parts[0])
		dl, _ := strconv.ParseInt(parts[1], 10, 64)
		boundCap = -1
		if len(parts) > 2 {
			boundCap, _ = strconv.Atoi(parts[2])
		}
		start := time.Now()
		capApplied = false
		res := units[idx].Run(time.UnixMilli(dl))
		res.Capped = capApplied
		res.Name = units[idx].Name
		res.WallMS = time.Since(start).Milliseconds()
		b, err := json.Marshal(res)
		if err != nil {
			b, _ = json.Marshal(&UnitResult{Name: units[idx].Name, HarnessErrors: []string{"marshal: " + err.Error()}})
		}
		out.Write(b)
		out.WriteByte('\n')
		out.Flush()
		if res.Poisoned {
			os.Exit(0)
		}
	}
}

// boundCap (>= 0) limits the deviation bound of the unit being run: the thorough tier first takes every
// unit to the quick tier's bound, then deepens.
var boundCap = -1

var capApplied bool

func capBound(b int) int {
	if boundCap >= 0 && b > boundCap {
		capApplied = true
		return boundCap
	}
	return b
}

type knownFinding struct {
	prop string
	key  *regexp.Regexp
	text string
	raw  string
}

func loadKnown(prop string) []knownFinding {
	var out []knownFinding
	file := "/verif/known_findings.txt"
	if v := os.Getenv("VERIF_KNOWN_FILE"); v != "" {
		file = v // investigation only: the registered commands never set it
	}
	b, err := os.ReadFile(file)
	if err != nil {
		return nil
	}
	for _, line := range strings.Split(string(b), "\n") {
		line = strings.TrimSpace(line)
		if !strings.HasPrefix(line, "known:") {
			continue
		}
		f := strings.Fields(strings.TrimPrefix(line, "known:"))
		if len(f) < 2 || f[0] != "property="+prop || !strings.HasPrefix(f[1], "key=") {
			continue
		}
		pat := strings.TrimPrefix(f[1], "key=")
		re := regexp.MustCompile("^" + strings.ReplaceAll(regexp.QuoteMeta(pat), `\*`, `.*`) + "$")
		out = append(out, knownFinding{prop: prop, key: re, text: strings.Join(f[2:], " "), raw: pat})
	}
	return out
}

// knownMatches: a listed finding covers a violation key it matches; a delay violation reached with
// several held goroutines ("siteA+siteB") is covered when holding one of them alone is a listed
// finding (the single-site violation is explored, and reported, at the lower bound).
func knownMatches(k knownFinding, key string) bool {
	if k.key.MatchString(key) {
		return true
	}
	// held sites start with "before-"; site names may contain '/' (env/conn.close, harness/ctx)
	i := strings.Index(key, "/before-")
	if i < 0 || !strings.Contains(key[i:], "+before-") {
		return false
	}
	for n, site := range strings.Split(key[i+1:], "+before-") {
		if n > 0 {
			site = "before-" + site
		}
		if k.key.MatchString(key[:i+1] + site) {
			return true
		}
	}
	return false
}

// onlyUnits: investigation aid (VERIF_ONLY=<text> keeps the units whose name contains the text); the
// coordinator and its workers apply the same filter, no registered command sets it.
func onlyUnits(units []*Unit) []*Unit {
	only := os.Getenv("VERIF_ONLY")
	if only == "" {
		return units
	}
	var keep []*Unit
	for _, u := range units {
		if strings.Contains(u.Name, only) {
			keep = append(keep, u)
		}
	}
	return keep
}

func envInt(name string, def int) int {
	if v, err := strconv.Atoi(os.Getenv(name)); err == nil {
		return v
	}
	return def
}

func coordinator(prop, tier string) int {
	start := time.Now()
	pc := registry[prop]
	if pc == nil {
		fmt.Fprintln(os.Stderr, "unknown property", prop)
		return 2
	}
	seed := envInt("VERIF_SEED", 0)
	units := onlyUnits(pc.Units(tier))
	budget := pc.Budget(tier)
	if v := os.Getenv("VERIF_BUDGET_S"); v != "" {
		if n, err := strconv.Atoi(v); err == nil {
			budget = time.Duration(n) * time.Second
		}
	}
	deadline := start.Add(budget)
	nw := envInt("VERIF_WORKERS", runtime.NumCPU())
	if nw > len(units) {
		nw = len(units)
	}
	if nw < 1 {
		nw = 1
	}
	// deal order: a permutation determined by the seed (results do not depend on it)
	order := make([]int, len(units))
	for i := range order {
		order[i] = i
	}
	if seed != 0 {
		r := uint64(seed)*6364136223846793005 + 1442695040888963407
		for i := len(order) - 1; i > 0; i-- {
			r = r*6364136223846793005 + 1442695040888963407
			j := int((r >> 33) % uint64(i+1))
			order[i], order[j] = order[j], order[i]
		}
	}
	results := make([]*UnitResult, len(units))
	var mu sync.Mutex
	var infra []string
	self, _ := os.Executable()
	passes := 0
	passCap := -1
	runPass := func(pending []int) {
		passes++
		jobs := make(chan int, len(pending))
		for _, i := range pending {
			jobs <- i
		}
		close(jobs)
		nUnits := len(pending)
		nw := nw
		if nw > nUnits {
			nw = nUnits
		}
		dealt := 0
		var wg sync.WaitGroup
		for w := 0; w < nw; w++ {
			wg.Add(1)
			go func(w int) {
				defer wg.Done()
				var cmd *exec.Cmd
				var stdin *bufio.Writer
				var stdout *bufio.Reader
				startWorker := func() error {
					cmd = exec.Command(self, "worker", prop, tier)
					cmd.Env = append(os.Environ(), "GOMAXPROCS=2", "GOGC=200")
					cmd.Stderr = nil
					ip, err := cmd.StdinPipe()
					if err != nil {
						return err
					}
					op, err := cmd.StdoutPipe()
					if err != nil {
						return err
					}
					stdin = bufio.NewWriter(ip)
					stdout = bufio.NewReaderSize(op, 1<<20)
					errFile, _ := os.CreateTemp(filepath.Dir(self), "verifh-worker-*.log") // next to the binary: the scratch directory bin/check removes
					cmd.Stderr = errFile
					return cmd.Start()
				}
				if err := startWorker(); err != nil {
					mu.Lock()
					infra = append(infra, "cannot start worker: "+err.Error())
					mu.Unlock()
					return
				}
				served := 0
				for idx := range jobs {
					// fair share: what is left of the budget, spread over the units not yet dealt, so that
					// every unit is explored to some completed bound instead of the last ones not at all
					mu.Lock()
					left := nUnits - dealt
					dealt++
					mu.Unlock()
					ud := deadline
					if left > nw && tier == "thorough" && passCap < 0 {
						share := time.Duration(int64(time.Until(deadline)) * int64(nw) / int64(left))
						if share < 15*time.Second {
							share = 15 * time.Second
						}
						if d := time.Now().Add(share); d.Before(ud) {
							ud = d
						}
					}
					fmt.Fprintf(stdin, "%d %d %d\n", idx, ud.UnixMilli(), passCap)
					stdin.Flush()
					line, err := stdout.ReadBytes('\n')
					if err != nil {
						// the worker died: a fatal runtime error in the code under test or in the harness
						logTail := ""
						if f, ok := cmd.Stderr.(*os.File); ok {
							b, _ := os.ReadFile(f.Name())
							if len(b) > 3000 {
								b = b[:3000]
							}
							logTail = string(b)
						}
						_ = cmd.Wait()
						mu.Lock()
						results[idx] = &UnitResult{Name: units[idx].Name, Violations: []vrt.FoundViolation{{Violation: vrt.Violation{
							Key:    "worker-died/" + fatalKey(logTail),
							Detail: "the worker process died while running " + units[idx].Name + ":\n" + logTail}}}}
						mu.Unlock()
						if err := startWorker(); err != nil {
							mu.Lock()
							infra = append(infra, "cannot restart worker: "+err.Error())
							mu.Unlock()
							return
						}
						continue
					}
					var res UnitResult
					if err := json.Unmarshal(line, &res); err != nil {
						mu.Lock()
						infra = append(infra, "bad worker output: "+err.Error())
						mu.Unlock()
						continue
					}
					mu.Lock()
					if prev := results[idx]; prev != nil {
						// a later pass restarts the unit from bound 0 with a longer deadline: it supersedes the
						// earlier result unless it got less far; violations are kept from both
						if res.BoundCompleted < prev.BoundCompleted {
							prev.Violations = append(prev.Violations, res.Violations...)
							res = *prev
						} else {
							res.Violations = append(res.Violations, prev.Violations...)
						}
					}
					results[idx] = &res
					mu.Unlock()
					served++
					if res.Poisoned {
						_ = cmd.Process.Kill()
						_ = cmd.Wait()
						if err := startWorker(); err != nil {
							mu.Lock()
							infra = append(infra, "cannot restart worker: "+err.Error())
							mu.Unlock()
							return
						}
					}
				}
				stdin.Flush()
				if c, ok := cmd.Stdin.(interface{ Close() error }); ok {
					_ = c
				}
				_ = cmd.Process.Kill()
				_ = cmd.Wait()
				if f, ok := cmd.Stderr.(*os.File); ok {
					os.Remove(f.Name())
				}
			}(w)
		}
		wg.Wait()
	}
	if tier == "thorough" {
		// first every unit to bound 1 (what the quick tier completes), so that no unit is left unexplored
		passCap = 1
		runPass(order)
		passCap = -1
		passes = 0
		for _, r := range results {
			if r != nil && r.Exhaustive && r.Capped {
				r.Exhaustive = false // only up to the cap: the deeper passes decide
			}
		}
	}
	if tier == "thorough" {
		var rest []int
		for _, i := range order {
			if r := results[i]; r == nil || !r.Exhaustive {
				rest = append(rest, i)
			}
		}
		if len(rest) > 0 {
			runPass(rest)
		}
	} else {
		runPass(order)
	}
	// thorough tier: units cut short by their fair share are taken up again while budget remains
	for tier == "thorough" && passes < 4 && time.Until(deadline) > 90*time.Second {
		var again []int
		for _, i := range order {
			if r := results[i]; r != nil && !r.Exhaustive && !r.Poisoned && len(r.HarnessErrors) == 0 && !r.CapHit {
				again = append(again, i)
			}
		}
		if len(again) == 0 {
			break
		}
		runPass(again)
	}

	// bind the environment models to the real ATP stack
	if pc.Level == "model_checking" {
		n, probs := conformance()
		validatedBase = n
		for _, p := range probs {
			infra = append(infra, "environment model disagrees with the real ATP client/server: "+p)
		}
	}
	// merge
	known := loadKnown(prop)
	var execs int
	var points int64
	var sigs, outcomes, nontrivial int
	validated := validatedBase
	exhaustive := true
	minBound := 1 << 30
	var perScenario []map[string]any
	var samples []any
	type vrec struct {
		unit string
		v    vrt.FoundViolation
	}
	var newV, knownV []vrec
	seenKey := map[string]bool{}
	for i, r := range results {
		if r == nil {
			exhaustive = false
			infra = append(infra, "no result for unit "+units[i].Name)
			continue
		}
		execs += r.Execs
		points += r.Points
		sigs += r.Signatures
		outcomes += r.Outcomes
		validated += r.Validated
		nontrivial += r.Nontrivial
		if !r.Exhaustive {
			exhaustive = false
		}
		if r.BoundCompleted < minBound {
			minBound = r.BoundCompleted
		}
		infra = append(infra, r.HarnessErrors...)
		if len(perScenario) < 400 {
			perScenario = append(perScenario, map[string]any{"unit": r.Name, "executions": r.Execs, "signatures": r.Signatures,
				"distinct_outcomes": r.Outcomes, "bound_completed": r.BoundCompleted, "exhaustive": r.Exhaustive, "wall_ms": r.WallMS})
		}
		if r.Sample != nil && len(samples) < 6 {
			samples = append(samples, map[string]any{"unit": r.Name, "sample": r.Sample, "outcomes": r.OutcomeSample})
		}
		for _, v := range r.Violations {
			if seenKey[v.Key] {
				continue
			}
			seenKey[v.Key] = true
			isKnown := false
			for _, k := range known {
				if knownMatches(k, v.Key) {
					isKnown = true
				}
			}
			if isKnown {
				knownV = append(knownV, vrec{r.Name, v})
			} else {
				newV = append(newV, vrec{r.Name, v})
			}
		}
	}
	if minBound == 1<<30 {
		minBound = 0
	}
	sort.Slice(newV, func(i, j int) bool { return newV[i].v.Key < newV[j].v.Key })
	sort.Slice(knownV, func(i, j int) bool { return knownV[i].v.Key < knownV[j].v.Key })
	// one KNOWN-FINDING line per listed finding that was observed
	printed := map[string]bool{}
	for _, kv := range knownV {
		for _, k := range known {
			if knownMatches(k, kv.v.Key) && !printed[k.raw] {
				printed[k.raw] = true
				fmt.Printf("KNOWN-FINDING: property=%s %s [%s]\n", prop, k.text, k.raw)
			}
		}
	}
	replayDir := "/verif/replays"
	evidenceDir := "/verif/evidence"
	if d := os.Getenv("VERIF_EVIDENCE_DIR"); d != "" {
		evidenceDir = d
		replayDir = d
	}
	os.MkdirAll(replayDir, 0o755)
	for _, nv := range newV {
		h := sha1.Sum([]byte(nv.v.Key))
		path := fmt.Sprintf("%s/%s-%x.json", replayDir, prop, h[:6])
		art := map[string]any{"property": prop, "tier": tier, "unit": nv.unit, "key": nv.v.Key, "detail": nv.v.Detail,
			"schedule": nv.v.Schedule, "trace": nv.v.Trace}
		b, _ := json.MarshalIndent(art, "", " ")
		_ = os.WriteFile(path, b, 0o644)
		fmt.Printf("VIOLATION property=%s replay=%s\n", prop, path)
		fmt.Printf("  key: %s\n  %s\n", nv.v.Key, strings.ReplaceAll(short(nv.v.Detail, 1800), "\n", "\n  "))
	}
	wall := time.Since(start).Seconds()
	if len(samples) == 0 {
		samples = append(samples, "no unit produced a sample")
	}
	cov := map[string]any{
		"evaluations":                   execs,
		"distinct_nontrivial":           maxInt(outcomes, nontrivial),
		"rule":                          pc.Rule,
		"samples":                       samples,
		"states":                        sigs,
		"transitions":                   points,
		"traces_validated_against_impl": validated,
		"exhaustive":                    exhaustive,
		"bound_completed":               minBound,
		"units":                         len(units),
		"distinct_outcomes":             outcomes,
		"per_scenario":                  perScenario,
		"known_findings_observed":       len(knownV),
		"explanation":                   pc.Rule,
	}
	ev := map[string]any{
		"property_id": prop, "tier": tier, "seed": seed, "level": pc.Level, "coverage": cov,
		"assumptions": pc.Assumptions, "wall_s": wall, "violations": len(newV),
	}
	os.MkdirAll(evidenceDir, 0o755)
	b, _ := json.MarshalIndent(ev, "", " ")
	if err := os.WriteFile(filepath.Join(evidenceDir, prop+".json"), b, 0o644); err != nil {
		fmt.Fprintln(os.Stderr, "cannot write evidence:", err)
		return 2
	}
	fmt.Printf("%s %s: units=%d executions=%d states=%d transitions=%d distinct_outcomes=%d bound_completed=%d exhaustive=%v known=%d new=%d wall=%.1fs\n",
		prop, tier, len(units), execs, sigs, points, outcomes, minBound, exhaustive, len(knownV), len(newV), wall)
	for i, e := range infra {
		if i < 10 {
			fmt.Fprintln(os.Stderr, "harness error:", short(e, 600))
		}
	}
	if len(newV) > 0 {
		// every reported violation was reproduced from its recorded schedule; harness errors next to it
		// (e.g. replay divergence caused by state the change under test leaks between executions) do
		// not take the finding back
		return 1
	}
	if len(infra) > 0 {
		return 2
	}
	return 0
}

func maxInt(a, b int) int {
	if a > b {
		return a
	}
	return b
}

func fatalKey(log string) string {
	for _, l := range strings.Split(log, "\n") {
		if strings.HasPrefix(l, "fatal error:") || strings.HasPrefix(l, "panic:") {
			return short(strings.TrimSpace(l), 60)
		}
	}
	return "unknown"
}

// replay re-runs the unit and schedule stored in a violation artefact.
func replay(path string) int {
	b, err := os.ReadFile(path)
	if err != nil {
		fmt.Fprintln(os.Stderr, err)
		return 2
	}
	var art struct {
		Property string
		Tier     string
		Unit     string
		Key      string
		Schedule []vrt.Dev
	}
	if err := json.Unmarshal(b, &art); err != nil {
		fmt.Fprintln(os.Stderr, err)
		return 2
	}
	pc := registry[art.Property]
	if pc == nil {
		fmt.Fprintln(os.Stderr, "unknown property", art.Property)
		return 2
	}
	for _, u := range pc.Units(art.Tier) {
		if u.Name != art.Unit {
			continue
		}
		replaySchedule = art.Schedule
		replayKey = art.Key
		defer func() { replaySchedule = nil }()
		res := u.Run(time.Now().Add(5 * time.Minute))
		for _, v := range res.Violations {
			if v.Key == art.Key {
				fmt.Printf("reproduced: %s\n%s\nschedule=%v\n%s\n", v.Key, v.Detail, v.Schedule, v.Trace)
				fmt.Printf("VIOLATION property=%s replay=%s\n", art.Property, path)
				return 1
			}
		}
		fmt.Println("the violation did not reproduce on the current tree")
		return 0
	}
	fmt.Fprintln(os.Stderr, "unit not found:", art.Unit)
	return 2
}

var validatedBase int

// replaySchedule, when set, makes exploring units run exactly this schedule.
var replaySchedule []vrt.Dev
var replayKey string
