package main

import (
	"context"
	"fmt"
	"os"
	"time"

	"go.flow.arcalot.io/engine/internal/verif/env"
	"go.flow.arcalot.io/engine/internal/verif/vrt"
)

const wf1 = `
version: v0.2.0
input:
  root: RootObject
  objects:
    RootObject:
      id: RootObject
      properties:
        n:
          type:
            type_id: integer
steps:
  a:
    plugin:
      src: a
      deployment_type: builtin
    step: run
    input:
      v: !expr $.input.n
  b:
    plugin:
      src: b
      deployment_type: builtin
    step: run
    input:
      v: !expr $.steps.a.outputs.success.v
outputs:
  success:
    r: !expr $.steps.b.outputs.success.v
`

func main() {
	if len(os.Args) > 1 && os.Args[1] == "smoke" {
		smoke()
		return
	}
	fmt.Println("usage: verifh smoke")
	os.Exit(2)
}

func smoke() {
	script := &env.Script{Steps: map[string]*env.StepScript{}}
	env.W = env.NewWorld(script)
	env.W.Phase = "prepare"
	pw, err := prepare(wf1, nil)
	if err != nil {
		fmt.Println("prepare:", err)
		os.Exit(1)
	}
	type res struct {
		id   string
		data any
		err  error
	}
	var last res
	start := time.Now()
	st := vrt.Explore(vrt.ExploreCfg{
		Bound: 1,
		Menu:  vrt.MenuOf(vrt.KPreempt, vrt.KSwitch, vrt.KSelect),
		Check: func(x *vrt.Exec) []vrt.Violation {
			o := x.Outcome()
			if o.Deadlock || o.Panic != nil || o.StepLimit {
				d := fmt.Sprintf("deadlock=%v panic=%v blocked=%v", o.Deadlock, o.Panic, o.Blocked)
				return []vrt.Violation{{Key: "liveness", Detail: d}}
			}
			return nil
		},
		Outcome: func(x *vrt.Exec) string { return fmt.Sprintf("%s %v %v", last.id, last.data, last.err) },
	}, func() {
		env.W = env.NewWorld(script)
		ctx, cancel := vrt.WithCancel("harness", context.Background())
		defer cancel()
		id, data, err := pw.Execute(ctx, map[string]any{"n": 5})
		last = res{id, data, err}
	})
	fmt.Printf("execs=%d points=%d choices=%d max=%d bound=%d exhaustive=%v sigs=%d in %v\n", st.Execs, st.Points, st.ChoicePoints, st.MaxChoices, st.BoundCompleted, st.Exhaustive, st.Signatures, time.Since(start))
	for k, v := range st.Outcomes {
		fmt.Printf("  outcome %q x%d\n", k, v)
	}
	for _, v := range st.Violations {
		fmt.Printf("VIOLATION %s: %s\n schedule=%v\n%s", v.Key, v.Detail, v.Schedule, v.Trace)
	}
	fmt.Println(st.HarnessErrors)
}
