// Package atp replaces go.flow.arcalot.io/pluginsdk/atp in the plugin provider of
// controlled builds: connections deployed by the scripted deployer get the in-process
// client, everything else the real ATP client.
package atp

import (
	log "go.arcalot.io/log/v2"
	"go.flow.arcalot.io/engine/internal/verif/env"
	ratp "go.flow.arcalot.io/pluginsdk/atp"
)

type Client = ratp.Client
type ExecutionResult = ratp.ExecutionResult
type ClientChannel = ratp.ClientChannel

func NewClientWithLogger(channel ratp.ClientChannel, logger log.Logger) Client {
	if c, ok := channel.(*env.Conn); ok {
		return env.NewClient(c)
	}
	return ratp.NewClientWithLogger(channel, logger)
}

func NewClient(channel ratp.ClientChannel) Client { return NewClientWithLogger(channel, nil) }
