// Command instr rewrites the synchronisation, time, context, goroutine, channel and
// map-iteration operations of the engine packages into calls to the controlled runtime
// (rt/vrt), writes the rewritten copies into a scratch directory and emits a
// `go build -overlay` file that maps the original paths to the copies and adds the
// verification packages (rt/...) as virtual packages inside the engine module.
//
// Nothing in /repo is modified. Types are left untouched; only operations are rewritten.
// Any synchronisation primitive the rewriter does not know makes it fail (exit 2): the
// explorer never runs with nondeterminism it does not own.
package main

import (
	"reflect"
	"bytes"
	"encoding/json"
	"flag"
	"fmt"
	"go/ast"
	"go/importer"
	"go/parser"
	"go/printer"
	"go/token"
	"go/types"
	"io"
	"os"
	"os/exec"
	"path/filepath"
	"sort"
	"strconv"
	"strings"
)

const vrtPath = "go.flow.arcalot.io/engine/internal/verif/vrt"

type listedPkg struct {
	Dir        string
	ImportPath string
	Export     string
	GoFiles    []string
	Standard   bool
	Module     *struct{ Path, Dir string }
}

type stringList []string

func (s *stringList) String() string     { return strings.Join(*s, ",") }
func (s *stringList) Set(v string) error { *s = append(*s, v); return nil }

func main() {
	var (
		repo     = flag.String("repo", "/repo", "repository root")
		out      = flag.String("out", "", "scratch output directory")
		rt       = flag.String("rt", "/verif/rt", "verification runtime sources (mapped to internal/verif/...)")
		probes   = flag.Bool("probes", false, "insert memory access probes for the race detector")
		pkgs     stringList
		swaps    stringList
		extra    stringList
		mapOnly  stringList
		noInstr  = flag.Bool("plain", false, "do not rewrite engine sources (only add virtual packages and import swaps)")
		swapFile = flag.String("swapfile", "internal/step/plugin/provider.go", "file (relative to repo) in which import swaps apply")
	)
	flag.Var(&pkgs, "pkg", "engine package (relative dir) to rewrite; repeatable")
	flag.Var(&swaps, "swap", "import swap old=new applied to -swapfile; repeatable")
	flag.Var(&extra, "virtual", "virtual mapping reldir=srcdir (reldir relative to repo); repeatable")
	flag.Var(&mapOnly, "maponly", "external package dir=importpath rewritten for map order only; repeatable")
	flag.Parse()
	if *out == "" {
		fatal("missing -out")
	}
	if err := os.MkdirAll(*out, 0o755); err != nil {
		fatal("%v", err)
	}
	overlay := map[string]string{}

	// 1. virtual packages
	virtual := map[string]string{}
	if *rt != "" {
		entries, err := os.ReadDir(*rt)
		if err != nil {
			fatal("%v", err)
		}
		for _, e := range entries {
			if !e.IsDir() {
				continue
			}
			if e.Name() == "harness" {
				virtual["cmd/verifh"] = filepath.Join(*rt, e.Name())
			} else {
				virtual[filepath.Join("internal/verif", e.Name())] = filepath.Join(*rt, e.Name())
			}
		}
	}
	for _, v := range extra {
		kv := strings.SplitN(v, "=", 2)
		virtual[kv[0]] = kv[1]
	}
	for rel, src := range virtual {
		err := filepath.Walk(src, func(p string, fi os.FileInfo, err error) error {
			if err != nil {
				return err
			}
			if fi.IsDir() || !strings.HasSuffix(p, ".go") || strings.HasSuffix(p, "_test.go") {
				return nil
			}
			sub, _ := filepath.Rel(src, p)
			overlay[filepath.Join(*repo, rel, sub)] = p
			return nil
		})
		if err != nil {
			fatal("%v", err)
		}
	}

	// 2. rewrite engine packages
	swapMap := map[string]string{}
	for _, s := range swaps {
		kv := strings.SplitN(s, "=", 2)
		swapMap[kv[0]] = kv[1]
	}
	stats := map[string]int{}
	if !*noInstr && len(pkgs) > 0 {
		args := []string{"list", "-export", "-deps", "-json"}
		for _, p := range pkgs {
			args = append(args, "./"+p)
		}
		cmd := exec.Command("go", args...)
		cmd.Dir = *repo
		cmd.Stderr = os.Stderr
		data, err := cmd.Output()
		if err != nil {
			fatal("go list failed: %v", err)
		}
		exports := map[string]string{}
		var targets []*listedPkg
		dec := json.NewDecoder(bytes.NewReader(data))
		want := map[string]bool{}
		for _, p := range pkgs {
			want[filepath.Clean(filepath.Join(*repo, p))] = true
		}
		for {
			var lp listedPkg
			if err := dec.Decode(&lp); err == io.EOF {
				break
			} else if err != nil {
				fatal("decode go list: %v", err)
			}
			if lp.Export != "" {
				exports[lp.ImportPath] = lp.Export
			}
			if want[filepath.Clean(lp.Dir)] {
				l := lp
				targets = append(targets, &l)
			}
		}
		if len(targets) != len(pkgs) {
			fatal("expected %d target packages, go list gave %d", len(pkgs), len(targets))
		}
		for _, t := range targets {
			rel, _ := filepath.Rel(*repo, t.Dir)
			n, err := rewritePackage(t, rel, *repo, *out, exports, overlay, *probes, swapMap, *swapFile, false, stats)
			if err != nil {
				fatal("rewrite %s: %v", t.ImportPath, err)
			}
			_ = n
		}
	}
	if *noInstr && len(swapMap) > 0 {
		// plain mode: only the import swap in swapfile (textual)
		p := filepath.Join(*repo, *swapFile)
		b, err := os.ReadFile(p)
		if err != nil {
			fatal("%v", err)
		}
		s := string(b)
		for o, n := range swapMap {
			s = strings.Replace(s, strconv.Quote(o), "atp "+strconv.Quote(n), 1)
		}
		dst := filepath.Join(*out, "plain_"+strings.ReplaceAll(*swapFile, "/", "_"))
		if err := os.WriteFile(dst, []byte(s), 0o644); err != nil {
			fatal("%v", err)
		}
		overlay[p] = dst
	}

	// 3. external packages rewritten for map order only (e.g. dgraph)
	if !*noInstr {
		for _, m := range mapOnly {
			kv := strings.SplitN(m, "=", 2)
			dir, ip := kv[0], kv[1]
			cmd := exec.Command("go", "list", "-export", "-deps", "-json", ip)
			cmd.Dir = *repo
			cmd.Stderr = os.Stderr
			data, err := cmd.Output()
			if err != nil {
				fatal("go list %s failed: %v", ip, err)
			}
			exports := map[string]string{}
			var target *listedPkg
			dec := json.NewDecoder(bytes.NewReader(data))
			for {
				var lp listedPkg
				if err := dec.Decode(&lp); err == io.EOF {
					break
				} else if err != nil {
					fatal("decode: %v", err)
				}
				if lp.Export != "" {
					exports[lp.ImportPath] = lp.Export
				}
				if lp.ImportPath == ip {
					l := lp
					target = &l
				}
			}
			if target == nil {
				fatal("package %s not found", ip)
			}
			_ = dir
			if _, err := rewritePackage(target, "ext/"+strings.ReplaceAll(ip, "/", "_"), "", *out, exports, overlay, false, nil, "", true, stats); err != nil {
				fatal("rewrite %s: %v", ip, err)
			}
		}
	}

	ov := struct{ Replace map[string]string }{overlay}
	b, _ := json.MarshalIndent(ov, "", " ")
	if err := os.WriteFile(filepath.Join(*out, "overlay.json"), b, 0o644); err != nil {
		fatal("%v", err)
	}
	sb, _ := json.Marshal(stats)
	_ = os.WriteFile(filepath.Join(*out, "instr_stats.json"), sb, 0o644)
}

func fatal(f string, a ...any) {
	fmt.Fprintf(os.Stderr, "instr: "+f+"\n", a...)
	os.Exit(2)
}

func rewritePackage(t *listedPkg, rel, repo, out string, exports map[string]string, overlay map[string]string,
	probes bool, swaps map[string]string, swapFile string, mapOnly bool, stats map[string]int) (int, error) {
	fset := token.NewFileSet()
	var files []*ast.File
	var names []string
	for _, f := range t.GoFiles {
		p := filepath.Join(t.Dir, f)
		af, err := parser.ParseFile(fset, p, nil, parser.ParseComments|parser.SkipObjectResolution)
		if err != nil {
			return 0, err
		}
		files = append(files, af)
		names = append(names, p)
	}
	lookup := func(path string) (io.ReadCloser, error) {
		e, ok := exports[path]
		if !ok {
			return nil, fmt.Errorf("no export data for %s", path)
		}
		return os.Open(e)
	}
	info := &types.Info{
		Types:      map[ast.Expr]types.TypeAndValue{},
		Uses:       map[*ast.Ident]types.Object{},
		Defs:       map[*ast.Ident]types.Object{},
		Selections: map[*ast.SelectorExpr]*types.Selection{},
	}
	conf := types.Config{Importer: importer.ForCompiler(fset, "gc", lookup)}
	tpkg, err := conf.Check(t.ImportPath, fset, files, info)
	if err != nil {
		return 0, fmt.Errorf("type check: %w", err)
	}
	total := 0
	for i, af := range files {
		relFile := filepath.Join(rel, filepath.Base(names[i]))
		r := &rewriter{fset: fset, info: info, file: af, relFile: relFile, probes: probes, mapOnly: mapOnly, stats: stats, pkg: tpkg}
		r.run()
		if len(r.errs) > 0 {
			return 0, fmt.Errorf("%s", strings.Join(r.errs, "; "))
		}
		changed := r.count > 0
		if repo != "" && relFile == swapFile && len(swaps) > 0 {
			for _, is := range af.Imports {
				p, _ := strconv.Unquote(is.Path.Value)
				if n, ok := swaps[p]; ok {
					is.Path.Value = strconv.Quote(n)
					if is.Name == nil {
						is.Name = ast.NewIdent(filepath.Base(p))
					}
					changed = true
				}
			}
		}
		if !changed {
			continue
		}
		total += r.count
		if r.count > 0 {
			addImport(af, "vrt", vrtPath)
		}
		pruneImports(af)
		var buf bytes.Buffer
		// keep only directive comments
		af.Comments = nil
		af.Doc = nil
		cfg := printer.Config{Mode: printer.SourcePos | printer.UseSpaces | printer.TabIndent, Tabwidth: 8}
		if err := cfg.Fprint(&buf, fset, af); err != nil {
			return 0, fmt.Errorf("print %s: %w", names[i], err)
		}
		dst := filepath.Join(out, strings.ReplaceAll(relFile, "/", "__"))
		if err := os.WriteFile(dst, buf.Bytes(), 0o644); err != nil {
			return 0, err
		}
		overlay[names[i]] = dst
	}
	return total, nil
}

func addImport(f *ast.File, name, path string) {
	for _, is := range f.Imports {
		if p, _ := strconv.Unquote(is.Path.Value); p == path {
			return
		}
	}
	spec := &ast.ImportSpec{Name: ast.NewIdent(name), Path: &ast.BasicLit{Kind: token.STRING, Value: strconv.Quote(path)}}
	decl := &ast.GenDecl{Tok: token.IMPORT, Specs: []ast.Spec{spec}}
	f.Decls = append([]ast.Decl{decl}, f.Decls...)
	f.Imports = append(f.Imports, spec)
}

// pruneImports removes imports whose package name is no longer referenced.
func pruneImports(f *ast.File) {
	used := map[string]bool{}
	ast.Inspect(f, func(n ast.Node) bool {
		if se, ok := n.(*ast.SelectorExpr); ok {
			if id, ok := se.X.(*ast.Ident); ok {
				used[id.Name] = true
			}
		}
		return true
	})
	keep := func(is *ast.ImportSpec) bool {
		if is.Name != nil {
			if is.Name.Name == "_" || is.Name.Name == "." {
				return true
			}
			return used[is.Name.Name]
		}
		p, _ := strconv.Unquote(is.Path.Value)
		base := p[strings.LastIndex(p, "/")+1:]
		// versioned paths like log/v2
		if strings.HasPrefix(base, "v") && len(base) > 1 && base[1] >= '0' && base[1] <= '9' {
			parts := strings.Split(p, "/")
			if len(parts) >= 2 {
				base = parts[len(parts)-2]
			}
		}
		if used[base] {
			return true
		}
		// unknown package name (name differs from path): keep if it is one we never rewrite away
		switch p {
		case "sync", "sync/atomic", "time", "context":
			return used[base]
		}
		return true
	}
	var decls []ast.Decl
	for _, d := range f.Decls {
		gd, ok := d.(*ast.GenDecl)
		if !ok || gd.Tok != token.IMPORT {
			decls = append(decls, d)
			continue
		}
		var specs []ast.Spec
		for _, s := range gd.Specs {
			if keep(s.(*ast.ImportSpec)) {
				specs = append(specs, s)
			}
		}
		if len(specs) > 0 {
			gd.Specs = specs
			decls = append(decls, gd)
		}
	}
	f.Decls = decls
}

type rewriter struct {
	fset    *token.FileSet
	info    *types.Info
	file    *ast.File
	relFile string
	probes  bool
	mapOnly bool
	errs    []string
	count   int
	stats   map[string]int
	siteCount map[string]int
	pkg       *types.Package
}

func (r *rewriter) errf(pos token.Pos, f string, a ...any) {
	r.errs = append(r.errs, fmt.Sprintf("%s: %s", r.fset.Position(pos), fmt.Sprintf(f, a...)))
}

// site ids are "file:line|Func#k": the part after '|' is stable under edits elsewhere in the file.
func (r *rewriter) site(pos token.Pos) ast.Expr {
	p := r.fset.Position(pos)
	fn := r.funcAt(pos)
	if r.siteCount == nil {
		r.siteCount = map[string]int{}
	}
	r.siteCount[fn]++
	return &ast.BasicLit{Kind: token.STRING, Value: strconv.Quote(fmt.Sprintf("%s:%d|%s#%d", r.relFile, p.Line, fn, r.siteCount[fn]))}
}

func (r *rewriter) funcAt(pos token.Pos) string {
	for _, d := range r.file.Decls {
		fd, ok := d.(*ast.FuncDecl)
		if !ok || pos < fd.Pos() || pos > fd.End() {
			continue
		}
		name := fd.Name.Name
		if fd.Recv != nil && len(fd.Recv.List) > 0 {
			t := fd.Recv.List[0].Type
			if st, ok := t.(*ast.StarExpr); ok {
				t = st.X
			}
			if ix, ok := t.(*ast.IndexExpr); ok {
				t = ix.X
			}
			if id, ok := t.(*ast.Ident); ok {
				name = id.Name + "." + name
			}
		}
		return name
	}
	return "init"
}

func vrtSel(name string) ast.Expr {
	return &ast.SelectorExpr{X: ast.NewIdent("vrt"), Sel: ast.NewIdent(name)}
}

func call(fn ast.Expr, args ...ast.Expr) *ast.CallExpr {
	return &ast.CallExpr{Fun: fn, Args: args}
}

func (r *rewriter) bump(kind string) {
	r.count++
	if r.stats != nil {
		r.stats[kind]++
	}
}

var methodMap = map[string]string{
	"(*sync.Mutex).Lock":        "MutexLock",
	"(*sync.Mutex).Unlock":      "MutexUnlock",
	"(*sync.Mutex).TryLock":     "MutexTryLock",
	"(*sync.RWMutex).Lock":      "RWMutexLock",
	"(*sync.RWMutex).Unlock":    "RWMutexUnlock",
	"(*sync.RWMutex).RLock":     "RWMutexRLock",
	"(*sync.RWMutex).RUnlock":   "RWMutexRUnlock",
	"(*sync.WaitGroup).Add":     "WaitGroupAdd",
	"(*sync.WaitGroup).Done":    "WaitGroupDone",
	"(*sync.WaitGroup).Wait":    "WaitGroupWait",
	"(*sync.Once).Do":           "OnceDo",
	"(reflect.Value).MapKeys":   "ReflectMapKeys",
	"(reflect.Value).MapRange":  "!unsupported",
	"(*sync.Cond).Wait":         "!unsupported",
	"(*sync.Cond).Signal":       "!unsupported",
	"(*sync.Cond).Broadcast":    "!unsupported",
	"(*sync.Map).Load":          "!unsupported",
	"(*sync.Map).Store":         "!unsupported",
	"(*sync.Map).Range":         "!unsupported",
	"(*sync.Map).Delete":        "!unsupported",
	"(*sync.Map).LoadOrStore":   "!unsupported",
	"(*sync.Pool).Get":          "!unsupported",
	"(*sync.Pool).Put":          "!unsupported",
	"(*time.Timer).Stop":        "!unsupported",
	"(*time.Timer).Reset":       "!unsupported",
	"(*time.Ticker).Stop":       "!unsupported",
	"(*sync.WaitGroup).Go":      "!unsupported",
	"(*sync.RWMutex).TryLock":   "!unsupported",
	"(*sync.RWMutex).TryRLock":  "!unsupported",
	"(*sync.RWMutex).RLocker":   "!unsupported",
	"(*sync.Cond).L":            "!unsupported",
	"(*math/rand.Rand).Shuffle": "",
}

var funcMap = map[string]string{
	"time.After":           "After",
	"time.Sleep":           "Sleep",
	"time.Now":             "Now",
	"time.Since":           "Since",
	"time.Until":           "Until",
	"time.NewTimer":        "!unsupported",
	"time.AfterFunc":       "!unsupported",
	"time.Tick":            "!unsupported",
	"time.NewTicker":       "!unsupported",
	"context.WithCancel":   "WithCancel",
	"context.WithTimeout":  "WithTimeout",
	"context.WithDeadline": "WithDeadline",
	"context.WithCancelCause":  "!unsupported",
	"context.WithTimeoutCause": "!unsupported",
	"context.AfterFunc":        "!unsupported",
	"context.WithoutCancel":    "!unsupported",
	"sync.NewCond":             "!unsupported",
	"sync.OnceFunc":            "!unsupported",
	"sync.OnceValue":           "!unsupported",
	"sync.OnceValues":          "!unsupported",
	"runtime.Gosched":          "Gosched",
}

func (r *rewriter) run() {
	if r.probes && !r.mapOnly {
		// probes first: they need the type information of the untouched tree
		for _, d := range r.file.Decls {
			if fd, ok := d.(*ast.FuncDecl); ok && fd.Body != nil {
				fd.Body.List = r.probeList(fd.Body.List)
			}
		}
	}
	if !r.mapOnly {
		r.passA()
	} else {
		r.passAMapOnly()
	}
	for _, d := range r.file.Decls {
		switch d := d.(type) {
		case *ast.FuncDecl:
			if d.Body != nil {
				d.Body.List = r.stmts(d.Body.List)
			}
		case *ast.GenDecl:
			// function literals in package-level var initialisers
			ast.Inspect(d, func(n ast.Node) bool {
				if fl, ok := n.(*ast.FuncLit); ok {
					fl.Body.List = r.stmts(fl.Body.List)
					return false
				}
				return true
			})
		}
	}
}

func (r *rewriter) passAMapOnly() {
	ast.Inspect(r.file, func(n ast.Node) bool {
		ce, ok := n.(*ast.CallExpr)
		if !ok {
			return true
		}
		se, ok := ce.Fun.(*ast.SelectorExpr)
		if !ok {
			return true
		}
		if sel, ok := r.info.Selections[se]; ok {
			if fn, ok := sel.Obj().(*types.Func); ok && fn.FullName() == "(reflect.Value).MapKeys" {
				site := r.site(ce.Pos())
				ce.Fun = vrtSel("ReflectMapKeys")
				ce.Args = []ast.Expr{site, se.X}
				r.bump("reflect.MapKeys")
			}
		}
		return true
	})
}

// passA rewrites calls of known sync / time / context functions and methods in place.
func (r *rewriter) passA() {
	calleeOf := map[*ast.SelectorExpr]bool{}
	ast.Inspect(r.file, func(n ast.Node) bool {
		ce, ok := n.(*ast.CallExpr)
		if !ok {
			return true
		}
		se, ok := ce.Fun.(*ast.SelectorExpr)
		if !ok {
			return true
		}
		calleeOf[se] = true
		if sel, ok := r.info.Selections[se]; ok {
			fn, ok := sel.Obj().(*types.Func)
			if !ok {
				return true
			}
			full := fn.FullName()
			target, known := methodMap[full]
			if !known {
				// atomics: insert a point through the receiver
				if fn.Pkg() != nil && fn.Pkg().Path() == "sync/atomic" {
					recv := se.X
					if _, isPtr := sel.Recv().Underlying().(*types.Pointer); !isPtr {
						recv = &ast.UnaryExpr{Op: token.AND, X: &ast.ParenExpr{X: recv}}
					}
					se.X = call(vrtSel("Atomic"), r.site(ce.Pos()), recv)
					r.bump("atomic")
					return true
				}
				if fn.Pkg() != nil && (fn.Pkg().Path() == "sync") {
					r.errf(ce.Pos(), "unsupported primitive %s", full)
				}
				return true
			}
			if target == "" {
				return true
			}
			if target == "!unsupported" {
				r.errf(ce.Pos(), "unsupported primitive %s", full)
				return true
			}
			recv := se.X
			if strings.HasPrefix(full, "(*") {
				if _, isPtr := sel.Recv().Underlying().(*types.Pointer); !isPtr {
					recv = &ast.UnaryExpr{Op: token.AND, X: &ast.ParenExpr{X: recv}}
				}
			}
			site := r.site(ce.Pos())
			args := append([]ast.Expr{site, recv}, ce.Args...)
			ce.Fun = vrtSel(target)
			ce.Args = args
			r.bump(full)
			return true
		}
		// package-level function
		if obj, ok := r.info.Uses[se.Sel]; ok {
			if fn, ok := obj.(*types.Func); ok && fn.Pkg() != nil {
				full := fn.Pkg().Path() + "." + fn.Name()
				if target, ok := funcMap[full]; ok {
					if target == "!unsupported" {
						r.errf(ce.Pos(), "unsupported primitive %s", full)
						return true
					}
					site := r.site(ce.Pos())
					ce.Fun = vrtSel(target)
					ce.Args = append([]ast.Expr{site}, ce.Args...)
					r.bump(full)
				} else if fn.Pkg().Path() == "sync/atomic" {
					r.errf(ce.Pos(), "unsupported primitive %s", full)
				}
			}
		}
		return true
	})
	// method values / function values of rewritten primitives are not supported
	ast.Inspect(r.file, func(n ast.Node) bool {
		se, ok := n.(*ast.SelectorExpr)
		if !ok || calleeOf[se] {
			return true
		}
		if sel, ok := r.info.Selections[se]; ok {
			if fn, ok := sel.Obj().(*types.Func); ok {
				if t, known := methodMap[fn.FullName()]; known && t != "" {
					r.errf(se.Pos(), "method value of %s is not supported", fn.FullName())
				}
			}
		} else if obj, ok := r.info.Uses[se.Sel]; ok {
			if fn, ok := obj.(*types.Func); ok && fn.Pkg() != nil {
				if _, known := funcMap[fn.Pkg().Path()+"."+fn.Name()]; known {
					r.errf(se.Pos(), "function value of %s.%s is not supported", fn.Pkg().Path(), fn.Name())
				}
			}
		}
		return true
	})
}

// stmts rewrites a statement list (pass B).
func (r *rewriter) stmts(list []ast.Stmt) []ast.Stmt {
	var out []ast.Stmt
	for _, s := range list {
		out = append(out, r.stmt(s)...)
	}
	return out
}

func (r *rewriter) block(b *ast.BlockStmt) {
	if b != nil {
		b.List = r.stmts(b.List)
	}
}

// funcLits rewrites the bodies of function literals found in the expressions of n
// (not descending into nested statements that r.stmt handles itself).
func (r *rewriter) exprs(n ast.Node) {
	if n == nil {
		return
	}
	ast.Inspect(n, func(m ast.Node) bool {
		switch m := m.(type) {
		case *ast.FuncLit:
			m.Body.List = r.stmts(m.Body.List)
			return false
		case *ast.UnaryExpr:
			if m.Op == token.ARROW && !r.mapOnly {
				// a receive nested in a larger expression: the operand is routed through a generic
				// helper that is the scheduling point and hands the channel back for the native receive
				if c, ok := m.X.(*ast.CallExpr); ok {
					if sel, ok := c.Fun.(*ast.SelectorExpr); ok && sel.Sel.Name == "RecvCh" {
						return true
					}
				}
				m.X = call(vrtSel("RecvCh"), r.site(m.Pos()), m.X)
				r.bump("recv-in-expression")
			}
		}
		return true
	})
}

func isRecv(e ast.Expr) (*ast.UnaryExpr, bool) {
	for {
		p, ok := e.(*ast.ParenExpr)
		if !ok {
			break
		}
		e = p.X
	}
	u, ok := e.(*ast.UnaryExpr)
	if ok && u.Op == token.ARROW {
		return u, true
	}
	return nil, false
}

func (r *rewriter) isBuiltin(e ast.Expr, name string) bool {
	id, ok := e.(*ast.Ident)
	if !ok || id.Name != name {
		return false
	}
	_, isB := r.info.Uses[id].(*types.Builtin)
	return isB
}

func (r *rewriter) stmt(s ast.Stmt) []ast.Stmt {
	switch s := s.(type) {
	case *ast.BlockStmt:
		r.block(s)
		return []ast.Stmt{s}
	case *ast.LabeledStmt:
		inner := r.stmt(s.Stmt)
		if len(inner) == 1 {
			s.Stmt = inner[0]
			return []ast.Stmt{s}
		}
		// hooks go before the label's statement; label stays on the last one
		s.Stmt = inner[len(inner)-1]
		return append(inner[:len(inner)-1], s)
	case *ast.IfStmt:
		if s.Init != nil {
			in := r.stmt(s.Init)
			if len(in) != 1 {
				r.errf(s.Pos(), "channel operation in if-init is not supported")
			} else {
				s.Init = in[0]
			}
		}
		r.exprs(s.Cond)
		r.block(s.Body)
		if s.Else != nil {
			el := r.stmt(s.Else)
			if len(el) == 1 {
				s.Else = el[0]
			} else {
				s.Else = &ast.BlockStmt{List: el}
			}
		}
		return []ast.Stmt{s}
	case *ast.ForStmt:
		if s.Init != nil {
			in := r.stmt(s.Init)
			if len(in) != 1 {
				r.errf(s.Pos(), "channel operation in for-init is not supported")
			} else {
				s.Init = in[0]
			}
		}
		r.exprs(s.Cond)
		if s.Post != nil {
			in := r.stmt(s.Post)
			if len(in) != 1 {
				r.errf(s.Pos(), "channel operation in for-post is not supported")
			}
		}
		r.block(s.Body)
		return []ast.Stmt{s}
	case *ast.RangeStmt:
		return r.rangeStmt(s)
	case *ast.SwitchStmt:
		if s.Init != nil {
			in := r.stmt(s.Init)
			if len(in) != 1 {
				r.errf(s.Pos(), "channel operation in switch-init is not supported")
			} else {
				s.Init = in[0]
			}
		}
		r.exprs(s.Tag)
		for _, c := range s.Body.List {
			cc := c.(*ast.CaseClause)
			for _, e := range cc.List {
				r.exprs(e)
			}
			cc.Body = r.stmts(cc.Body)
		}
		return []ast.Stmt{s}
	case *ast.TypeSwitchStmt:
		if s.Init != nil {
			in := r.stmt(s.Init)
			if len(in) == 1 {
				s.Init = in[0]
			} else {
				r.errf(s.Pos(), "channel operation in switch-init is not supported")
			}
		}
		r.exprs(s.Assign)
		for _, c := range s.Body.List {
			cc := c.(*ast.CaseClause)
			cc.Body = r.stmts(cc.Body)
		}
		return []ast.Stmt{s}
	case *ast.SelectStmt:
		if r.mapOnly {
			for _, c := range s.Body.List {
				cc := c.(*ast.CommClause)
				cc.Body = r.stmts(cc.Body)
			}
			return []ast.Stmt{s}
		}
		return []ast.Stmt{r.selectStmt(s)}
	case *ast.GoStmt:
		if r.mapOnly {
			r.exprs(s.Call)
			return []ast.Stmt{s}
		}
		return r.goStmt(s)
	case *ast.SendStmt:
		r.exprs(s.Chan)
		r.exprs(s.Value)
		if r.mapOnly {
			return []ast.Stmt{s}
		}
		r.bump("send")
		return []ast.Stmt{&ast.ExprStmt{X: call(vrtSel("PreSend"), r.site(s.Pos()), s.Chan)}, s}
	case *ast.ExprStmt:
		if u, ok := isRecv(s.X); ok && !r.mapOnly {
			r.exprs(u.X)
			r.bump("recv")
			return []ast.Stmt{&ast.ExprStmt{X: call(vrtSel("PreRecv"), r.site(s.Pos()), u.X)}, s}
		}
		if ce, ok := s.X.(*ast.CallExpr); ok && r.isBuiltin(ce.Fun, "close") && len(ce.Args) == 1 && !r.mapOnly {
			r.exprs(ce.Args[0])
			r.bump("close")
			return []ast.Stmt{&ast.ExprStmt{X: call(vrtSel("PreClose"), r.site(s.Pos()), ce.Args[0])}, s}
		}
		r.exprs(s.X)
		return []ast.Stmt{s}
	case *ast.AssignStmt:
		if len(s.Rhs) == 1 && !r.mapOnly {
			if u, ok := isRecv(s.Rhs[0]); ok {
				r.exprs(u.X)
				for _, l := range s.Lhs {
					r.exprs(l)
				}
				r.bump("recv")
				return []ast.Stmt{&ast.ExprStmt{X: call(vrtSel("PreRecv"), r.site(s.Pos()), u.X)}, s}
			}
		}
		for _, e := range s.Lhs {
			r.exprs(e)
		}
		for _, e := range s.Rhs {
			r.exprs(e)
		}
		return []ast.Stmt{s}
	case *ast.DeclStmt:
		r.exprs(s.Decl)
		return []ast.Stmt{s}
	case *ast.DeferStmt:
		r.exprs(s.Call)
		return []ast.Stmt{s}
	case *ast.ReturnStmt:
		for _, e := range s.Results {
			r.exprs(e)
		}
		return []ast.Stmt{s}
	case *ast.IncDecStmt:
		r.exprs(s.X)
		return []ast.Stmt{s}
	case *ast.BranchStmt, *ast.EmptyStmt:
		return []ast.Stmt{s}
	case *ast.CaseClause, *ast.CommClause:
		r.errf(s.Pos(), "unexpected clause")
		return []ast.Stmt{s}
	default:
		r.errf(s.Pos(), "unhandled statement %T", s)
		return []ast.Stmt{s}
	}
}

func (r *rewriter) goStmt(s *ast.GoStmt) []ast.Stmt {
	r.bump("go")
	c := s.Call
	// bodies of function literals
	r.exprs(c)
	if len(c.Args) == 0 {
		return []ast.Stmt{&ast.ExprStmt{X: call(vrtSel("Go"), r.site(s.Pos()), c.Fun)}}
	}
	// evaluate non-literal arguments now, as the go statement would
	var pre []ast.Stmt
	args := make([]ast.Expr, len(c.Args))
	for i, a := range c.Args {
		if _, lit := a.(*ast.BasicLit); lit {
			args[i] = a
			continue
		}
		if id, ok := a.(*ast.Ident); ok && (id.Name == "nil" || id.Name == "true" || id.Name == "false") {
			args[i] = a
			continue
		}
		name := ast.NewIdent(fmt.Sprintf("__goarg%d", i))
		pre = append(pre, &ast.AssignStmt{Lhs: []ast.Expr{name}, Tok: token.DEFINE, Rhs: []ast.Expr{a}})
		args[i] = name
	}
	inner := &ast.CallExpr{Fun: c.Fun, Args: args, Ellipsis: c.Ellipsis}
	fl := &ast.FuncLit{Type: &ast.FuncType{Params: &ast.FieldList{}}, Body: &ast.BlockStmt{List: []ast.Stmt{&ast.ExprStmt{X: inner}}}}
	stmts := append(pre, &ast.ExprStmt{X: call(vrtSel("Go"), r.site(s.Pos()), fl)})
	return []ast.Stmt{&ast.BlockStmt{List: stmts}}
}

func (r *rewriter) selectStmt(s *ast.SelectStmt) ast.Stmt {
	r.bump("select")
	hasDefault := false
	var caseArgs []ast.Expr
	var clauses []ast.Stmt
	var tmpNames []ast.Expr
	var tmpVals []ast.Expr
	idx := 0
	for _, c := range s.Body.List {
		cc := c.(*ast.CommClause)
		body := r.stmts(cc.Body)
		if cc.Comm == nil {
			hasDefault = true
			clauses = append(clauses, &ast.CaseClause{List: nil, Body: body})
			continue
		}
		// the channel operand is evaluated exactly once, on entering the select
		tmp := ast.NewIdent(fmt.Sprintf("__c%d", idx))
		dir := "R"
		switch cm := cc.Comm.(type) {
		case *ast.SendStmt:
			dir = "S"
			r.exprs(cm.Chan)
			r.exprs(cm.Value)
			tmpVals = append(tmpVals, cm.Chan)
			cm.Chan = tmp
		case *ast.ExprStmt:
			u, ok := isRecv(cm.X)
			if !ok {
				r.errf(cm.Pos(), "unexpected select comm")
				continue
			}
			r.exprs(u.X)
			tmpVals = append(tmpVals, u.X)
			u.X = tmp
		case *ast.AssignStmt:
			u, ok := isRecv(cm.Rhs[0])
			if !ok {
				r.errf(cm.Pos(), "unexpected select comm")
				continue
			}
			r.exprs(u.X)
			tmpVals = append(tmpVals, u.X)
			u.X = tmp
		}
		tmpNames = append(tmpNames, tmp)
		caseArgs = append(caseArgs, call(vrtSel(dir), tmp))
		clauses = append(clauses, &ast.CaseClause{
			List: []ast.Expr{&ast.BasicLit{Kind: token.INT, Value: strconv.Itoa(idx)}},
			Body: append([]ast.Stmt{cc.Comm}, body...),
		})
		idx++
	}
	def := ast.NewIdent("false")
	if hasDefault {
		def = ast.NewIdent("true")
	} else {
		// keeps the statement terminating where the select was
		clauses = append(clauses, &ast.CaseClause{List: nil, Body: []ast.Stmt{
			&ast.ExprStmt{X: call(ast.NewIdent("panic"), &ast.BasicLit{Kind: token.STRING, Value: strconv.Quote("vrt: select chose no case")})},
		}})
	}
	args := append([]ast.Expr{r.site(s.Pos()), def}, caseArgs...)
	sw := &ast.SwitchStmt{Tag: call(vrtSel("Select"), args...), Body: &ast.BlockStmt{List: clauses}}
	if len(tmpNames) > 0 {
		sw.Init = &ast.AssignStmt{Lhs: tmpNames, Tok: token.DEFINE, Rhs: tmpVals}
	}
	return sw
}

func isBlank(e ast.Expr) bool {
	if e == nil {
		return true
	}
	id, ok := e.(*ast.Ident)
	return ok && id.Name == "_"
}

func (r *rewriter) rangeStmt(s *ast.RangeStmt) []ast.Stmt {
	r.exprs(s.X)
	r.block(s.Body)
	t := r.info.TypeOf(s.X)
	if t == nil {
		return []ast.Stmt{s}
	}
	switch t.Underlying().(type) {
	case *types.Chan:
		if !r.mapOnly {
			r.errf(s.Pos(), "range over channel is not supported")
		}
		return []ast.Stmt{s}
	case *types.Map:
	default:
		return []ast.Stmt{s}
	}
	if isBlank(s.Key) && isBlank(s.Value) {
		return []ast.Stmt{s}
	}
	r.bump("maprange")
	e := ast.NewIdent("__e")
	ok := ast.NewIdent("__ok")
	var head []ast.Stmt
	get := call(&ast.SelectorExpr{X: e, Sel: ast.NewIdent("Get")})
	key, val := s.Key, s.Value
	if key == nil {
		key = ast.NewIdent("_")
	}
	if val == nil {
		val = ast.NewIdent("_")
	}
	if s.Tok == token.DEFINE {
		head = append(head, &ast.AssignStmt{Lhs: []ast.Expr{key, val, ok}, Tok: token.DEFINE, Rhs: []ast.Expr{get}})
	} else {
		k2, v2 := ast.NewIdent("__k"), ast.NewIdent("__v")
		head = append(head, &ast.AssignStmt{Lhs: []ast.Expr{k2, v2, ok}, Tok: token.DEFINE, Rhs: []ast.Expr{get}})
		if !isBlank(key) {
			head = append(head, &ast.AssignStmt{Lhs: []ast.Expr{key}, Tok: token.ASSIGN, Rhs: []ast.Expr{k2}})
		} else {
			head = append(head, &ast.AssignStmt{Lhs: []ast.Expr{ast.NewIdent("_")}, Tok: token.ASSIGN, Rhs: []ast.Expr{k2}})
		}
		if !isBlank(val) {
			head = append(head, &ast.AssignStmt{Lhs: []ast.Expr{val}, Tok: token.ASSIGN, Rhs: []ast.Expr{v2}})
		} else {
			head = append(head, &ast.AssignStmt{Lhs: []ast.Expr{ast.NewIdent("_")}, Tok: token.ASSIGN, Rhs: []ast.Expr{v2}})
		}
	}
	head = append(head, &ast.IfStmt{
		Cond: &ast.UnaryExpr{Op: token.NOT, X: ok},
		Body: &ast.BlockStmt{List: []ast.Stmt{&ast.BranchStmt{Tok: token.CONTINUE}}},
	})
	fn := "MapIter"
	ns := &ast.RangeStmt{
		Key:   ast.NewIdent("_"),
		Value: e,
		Tok:   token.DEFINE,
		X:     call(vrtSel(fn), r.site(s.Pos()), s.X),
		Body:  &ast.BlockStmt{List: append(head, &ast.BlockStmt{List: s.Body.List})},
	}
	return []ast.Stmt{ns}
}

var _ = sort.Strings

// ---------------------------------------------------------------------------------------
// access probes for the race detector (only with -probes)

type accInfo struct {
	expr  ast.Expr // the accessed expression
	isMap bool
	desc  string
	pos   token.Pos
}

func (r *rewriter) isSyncType(t types.Type) bool {
	for {
		p, ok := t.(*types.Pointer)
		if !ok {
			break
		}
		t = p.Elem()
	}
	n, ok := t.(*types.Named)
	if !ok || n.Obj().Pkg() == nil {
		return false
	}
	switch n.Obj().Pkg().Path() {
	case "sync", "sync/atomic", "context":
		return true
	}
	return false
}

// localStruct reports whether t (after dereferencing one pointer) is a struct type declared in this package.
func (r *rewriter) localStructPtr(t types.Type) (string, bool) {
	p, ok := t.Underlying().(*types.Pointer)
	if !ok {
		return "", false
	}
	n, ok := p.Elem().(*types.Named)
	if !ok || n.Obj().Pkg() == nil || n.Obj().Pkg() != r.pkg {
		return "", false
	}
	if _, ok := n.Underlying().(*types.Struct); !ok {
		return "", false
	}
	return n.Obj().Name(), true
}

// accessesIn lists the shared-memory reads performed by evaluating e (not descending into function literals).
func (r *rewriter) accessesIn(e ast.Expr) []accInfo {
	var out []accInfo
	var walk func(n ast.Expr, addrOf bool)
	walk = func(n ast.Expr, addrOf bool) {
		switch x := n.(type) {
		case nil:
		case *ast.ParenExpr:
			walk(x.X, addrOf)
		case *ast.FuncLit:
		case *ast.UnaryExpr:
			walk(x.X, x.Op == token.AND)
		case *ast.SelectorExpr:
			if sel, ok := r.info.Selections[x]; ok && sel.Kind() == types.FieldVal {
				if name, ok := r.localStructPtr(r.info.TypeOf(x.X)); ok && !addrOf && !r.isSyncType(sel.Type()) {
					if _, isFunc := sel.Type().Underlying().(*types.Signature); !isFunc {
						out = append(out, accInfo{expr: x, desc: name + "." + x.Sel.Name, pos: x.Pos()})
					}
				}
				walk(x.X, false)
				return
			}
			if _, isSel := r.info.Selections[x]; isSel {
				walk(x.X, false)
			}
		case *ast.IndexExpr:
			t := r.info.TypeOf(x.X)
			if t != nil {
				switch t.Underlying().(type) {
				case *types.Map:
					if !addrOf {
						out = append(out, accInfo{expr: x.X, isMap: true, desc: "map " + exprString(x.X), pos: x.Pos()})
					}
				case *types.Slice:
					if !addrOf {
						out = append(out, accInfo{expr: x, desc: "element of " + exprString(x.X), pos: x.Pos()})
					}
				}
			}
			walk(x.X, false)
			walk(x.Index, false)
		case *ast.Ident:
			if v, ok := r.info.Uses[x].(*types.Var); ok && !addrOf && v.Pkg() == r.pkg && v.Parent() == r.pkg.Scope() && !r.isSyncType(v.Type()) {
				out = append(out, accInfo{expr: x, desc: "package variable " + x.Name, pos: x.Pos()})
			}
		case *ast.CallExpr:
			if r.isBuiltin(x.Fun, "len") && len(x.Args) == 1 {
				if t := r.info.TypeOf(x.Args[0]); t != nil {
					if _, ok := t.Underlying().(*types.Map); ok {
						out = append(out, accInfo{expr: x.Args[0], isMap: true, desc: "map " + exprString(x.Args[0]), pos: x.Pos()})
					}
				}
			}
			walk(x.Fun, false)
			for _, a := range x.Args {
				walk(a, false)
			}
		case *ast.BinaryExpr:
			walk(x.X, false)
			walk(x.Y, false)
		case *ast.StarExpr:
			walk(x.X, false)
		case *ast.TypeAssertExpr:
			walk(x.X, false)
		case *ast.SliceExpr:
			walk(x.X, false)
			walk(x.Low, false)
			walk(x.High, false)
		case *ast.CompositeLit:
			for _, el := range x.Elts {
				if kv, ok := el.(*ast.KeyValueExpr); ok {
					walk(kv.Value, false)
				} else {
					walk(el, false)
				}
			}
		case *ast.KeyValueExpr:
			walk(x.Value, false)
		}
	}
	walk(e, false)
	return out
}

func exprString(e ast.Expr) string {
	var buf bytes.Buffer
	_ = printer.Fprint(&buf, token.NewFileSet(), e)
	s := buf.String()
	if len(s) > 40 {
		s = s[:40]
	}
	return s
}

// writeTarget describes the location written by assigning to lhs (and the reads needed to reach it).
func (r *rewriter) writeTarget(lhs ast.Expr) (w *accInfo, reads []accInfo) {
	switch x := lhs.(type) {
	case *ast.ParenExpr:
		return r.writeTarget(x.X)
	case *ast.SelectorExpr:
		if sel, ok := r.info.Selections[x]; ok && sel.Kind() == types.FieldVal {
			reads = r.accessesIn(x.X)
			if name, ok := r.localStructPtr(r.info.TypeOf(x.X)); ok && !r.isSyncType(sel.Type()) {
				return &accInfo{expr: x, desc: name + "." + x.Sel.Name, pos: x.Pos()}, reads
			}
			return nil, reads
		}
	case *ast.IndexExpr:
		reads = append(r.accessesIn(x.X), r.accessesIn(x.Index)...)
		if t := r.info.TypeOf(x.X); t != nil {
			switch t.Underlying().(type) {
			case *types.Map:
				return &accInfo{expr: x.X, isMap: true, desc: "map " + exprString(x.X), pos: x.Pos()}, reads
			case *types.Slice:
				return &accInfo{expr: x, desc: "element of " + exprString(x.X), pos: x.Pos()}, reads
			}
		}
		return nil, reads
	case *ast.Ident:
		if v, ok := r.info.Uses[x].(*types.Var); ok && v.Pkg() == r.pkg && v.Parent() == r.pkg.Scope() && !r.isSyncType(v.Type()) {
			return &accInfo{expr: x, desc: "package variable " + x.Name, pos: x.Pos()}, nil
		}
	case *ast.StarExpr:
		return nil, r.accessesIn(x.X)
	}
	return nil, nil
}

func (r *rewriter) probe(a accInfo, write bool) ast.Stmt {
	w := ast.NewIdent("false")
	if write {
		w = ast.NewIdent("true")
	}
	desc := &ast.BasicLit{Kind: token.STRING, Value: strconv.Quote(a.desc)}
	r.bump("probe")
	if a.isMap {
		return &ast.ExprStmt{X: call(vrtSel("AccMap"), r.site(a.pos), a.expr, desc, w)}
	}
	return &ast.ExprStmt{X: call(vrtSel("Acc"), r.site(a.pos), &ast.UnaryExpr{Op: token.AND, X: &ast.ParenExpr{X: a.expr}}, desc, w)}
}

// wrapRead replaces the read access a inside root by an expression that records the access when it is
// evaluated: x.f -> *vrt.AccR(site, &x.f, desc); m (of m[k], len(m)) -> vrt.AccMapR(site, m, desc).
func (r *rewriter) wrapRead(root ast.Node, a accInfo) bool {
	desc := &ast.BasicLit{Kind: token.STRING, Value: strconv.Quote(a.desc)}
	var repl ast.Expr
	if a.isMap {
		repl = call(vrtSel("AccMapR"), r.site(a.pos), a.expr, desc)
	} else {
		repl = &ast.ParenExpr{X: &ast.StarExpr{X: call(vrtSel("AccR"), r.site(a.pos), &ast.UnaryExpr{Op: token.AND, X: &ast.ParenExpr{X: a.expr}}, desc)}}
	}
	return replaceExpr(reflect.ValueOf(root), a.expr, repl, 0)
}

var exprType = reflect.TypeOf((*ast.Expr)(nil)).Elem()

// replaceExpr finds the field (or slice element) of the syntax tree under v that holds old and stores
// repl there. The replacement's own operand (which contains old) is not descended into.
func replaceExpr(v reflect.Value, old, repl ast.Expr, depth int) bool {
	if depth > 200 || !v.IsValid() {
		return false
	}
	switch v.Kind() {
	case reflect.Interface, reflect.Ptr:
		if v.IsNil() {
			return false
		}
		if v.Kind() == reflect.Ptr && v.Elem().Kind() != reflect.Struct {
			return false
		}
		if _, isObj := v.Interface().(*ast.Object); isObj {
			return false
		}
		return replaceExpr(v.Elem(), old, repl, depth+1)
	case reflect.Struct:
		for i := 0; i < v.NumField(); i++ {
			f := v.Field(i)
			if !f.CanSet() {
				continue
			}
			if f.Type() == exprType && !f.IsNil() {
				if f.Interface().(ast.Expr) == old {
					f.Set(reflect.ValueOf(repl))
					return true
				}
			}
			if replaceExpr(f, old, repl, depth+1) {
				return true
			}
		}
	case reflect.Slice:
		for i := 0; i < v.Len(); i++ {
			e := v.Index(i)
			if e.Type() == exprType && !e.IsNil() && e.Interface().(ast.Expr) == old {
				e.Set(reflect.ValueOf(repl))
				return true
			}
			if replaceExpr(e, old, repl, depth+1) {
				return true
			}
		}
	}
	return false
}

// firstCallPos returns the position of the first real call / channel operation in the expressions.
func (r *rewriter) firstCallPos(exprs ...ast.Expr) token.Pos {
	first := token.NoPos
	for _, e := range exprs {
		if e == nil {
			continue
		}
		ast.Inspect(e, func(n ast.Node) bool {
			switch x := n.(type) {
			case *ast.FuncLit:
				return false
			case *ast.CallExpr:
				if tv, ok := r.info.Types[x.Fun]; ok && tv.IsType() {
					return true // conversion
				}
				if id, ok := x.Fun.(*ast.Ident); ok {
					if _, isB := r.info.Uses[id].(*types.Builtin); isB {
						return true
					}
				}
				if first == token.NoPos || x.Pos() < first {
					first = x.Pos()
				}
			case *ast.UnaryExpr:
				if x.Op == token.ARROW && (first == token.NoPos || x.Pos() < first) {
					first = x.Pos()
				}
			}
			return true
		})
	}
	return first
}

// probesFor computes the probes placed before and after statement s.
func (r *rewriter) probesFor(s ast.Stmt) (pre, post []ast.Stmt) {
	var reads []accInfo
	var writes []accInfo
	var exprs []ast.Expr
	switch x := s.(type) {
	case *ast.AssignStmt:
		for _, e := range x.Rhs {
			reads = append(reads, r.accessesIn(e)...)
			exprs = append(exprs, e)
		}
		for _, l := range x.Lhs {
			if x.Tok == token.DEFINE {
				continue
			}
			w, rs := r.writeTarget(l)
			reads = append(reads, rs...)
			if w != nil {
				writes = append(writes, *w)
				if x.Tok != token.ASSIGN {
					reads = append(reads, *w) // op-assignment reads the target too
				}
			}
			exprs = append(exprs, l)
		}
	case *ast.IncDecStmt:
		w, rs := r.writeTarget(x.X)
		reads = append(reads, rs...)
		if w != nil {
			reads = append(reads, *w)
			writes = append(writes, *w)
		}
	case *ast.ExprStmt:
		if ce, ok := x.X.(*ast.CallExpr); ok && (r.isBuiltin(ce.Fun, "delete") || r.isBuiltin(ce.Fun, "clear")) && len(ce.Args) >= 1 {
			if t := r.info.TypeOf(ce.Args[0]); t != nil {
				if _, ok := t.Underlying().(*types.Map); ok {
					writes = append(writes, accInfo{expr: ce.Args[0], isMap: true, desc: "map " + exprString(ce.Args[0]), pos: ce.Pos()})
				}
			}
			for _, a := range ce.Args {
				reads = append(reads, r.accessesIn(a)...)
			}
			break
		}
		reads = append(reads, r.accessesIn(x.X)...)
		exprs = append(exprs, x.X)
	case *ast.SendStmt:
		reads = append(reads, r.accessesIn(x.Chan)...)
		reads = append(reads, r.accessesIn(x.Value)...)
		exprs = append(exprs, x.Value)
	case *ast.ReturnStmt:
		for _, e := range x.Results {
			reads = append(reads, r.accessesIn(e)...)
			exprs = append(exprs, e)
		}
	case *ast.IfStmt:
		if x.Init == nil {
			reads = append(reads, r.accessesIn(x.Cond)...)
			exprs = append(exprs, x.Cond)
		}
	case *ast.SwitchStmt:
		if x.Init == nil && x.Tag != nil {
			reads = append(reads, r.accessesIn(x.Tag)...)
			exprs = append(exprs, x.Tag)
		}
	case *ast.RangeStmt:
		reads = append(reads, r.accessesIn(x.X)...)
		exprs = append(exprs, x.X)
	case *ast.ForStmt:
		// the condition is evaluated before every iteration: its reads are probed where they are evaluated
		if x.Cond != nil {
			for _, a := range r.accessesIn(x.Cond) {
				if r.wrapRead(x, a) {
					r.bump("probe-in-expression")
				} else {
					r.bump("unprobed-loop-condition-read")
				}
			}
		}
	case *ast.DeferStmt:
		for _, a := range x.Call.Args {
			reads = append(reads, r.accessesIn(a)...)
		}
	case *ast.GoStmt:
		for _, a := range x.Call.Args {
			reads = append(reads, r.accessesIn(a)...)
		}
	case *ast.DeclStmt:
		if gd, ok := x.Decl.(*ast.GenDecl); ok {
			for _, sp := range gd.Specs {
				if vs, ok := sp.(*ast.ValueSpec); ok {
					for _, v := range vs.Values {
						reads = append(reads, r.accessesIn(v)...)
						exprs = append(exprs, v)
					}
				}
			}
		}
	}
	first := r.firstCallPos(exprs...)
	seen := map[string]bool{}
	for _, a := range reads {
		if first != token.NoPos && a.pos > first {
			// evaluated after a call of the same statement: a probe before the statement would be too
			// early, so the read itself is routed through a helper that is the probe
			if r.wrapRead(s, a) {
				r.bump("probe-in-expression")
			} else {
				r.bump("unprobed-read-after-call")
			}
			continue
		}
		k := fmt.Sprintf("r%s%d", a.desc, a.pos)
		if seen[k] {
			continue
		}
		seen[k] = true
		pre = append(pre, r.probe(a, false))
	}
	for _, a := range writes {
		if first != token.NoPos {
			post = append(post, r.probe(a, true))
		} else {
			pre = append(pre, r.probe(a, true))
		}
	}
	if _, isRet := s.(*ast.ReturnStmt); isRet {
		post = nil
	}
	return pre, post
}

// probeList inserts probes into a statement list, recursing into nested statements first.
func (r *rewriter) probeList(list []ast.Stmt) []ast.Stmt {
	var out []ast.Stmt
	for _, s := range list {
		pre, post := r.probesFor(s)
		r.probeNested(s)
		out = append(out, pre...)
		out = append(out, s)
		out = append(out, post...)
	}
	return out
}

func (r *rewriter) probeFuncLits(n ast.Node) {
	if n == nil {
		return
	}
	ast.Inspect(n, func(m ast.Node) bool {
		if fl, ok := m.(*ast.FuncLit); ok {
			fl.Body.List = r.probeList(fl.Body.List)
			return false
		}
		return true
	})
}

func (r *rewriter) probeNested(s ast.Stmt) {
	switch x := s.(type) {
	case *ast.BlockStmt:
		x.List = r.probeList(x.List)
	case *ast.LabeledStmt:
		r.probeNested(x.Stmt)
	case *ast.IfStmt:
		x.Body.List = r.probeList(x.Body.List)
		if x.Else != nil {
			if b, ok := x.Else.(*ast.BlockStmt); ok {
				b.List = r.probeList(b.List)
			} else {
				r.probeNested(x.Else)
			}
		}
		r.probeFuncLits(x.Cond)
	case *ast.ForStmt:
		x.Body.List = r.probeList(x.Body.List)
	case *ast.RangeStmt:
		x.Body.List = r.probeList(x.Body.List)
	case *ast.SwitchStmt:
		for _, c := range x.Body.List {
			cc := c.(*ast.CaseClause)
			cc.Body = r.probeList(cc.Body)
		}
	case *ast.TypeSwitchStmt:
		for _, c := range x.Body.List {
			cc := c.(*ast.CaseClause)
			cc.Body = r.probeList(cc.Body)
		}
	case *ast.SelectStmt:
		for _, c := range x.Body.List {
			cc := c.(*ast.CommClause)
			cc.Body = r.probeList(cc.Body)
		}
	case *ast.AssignStmt:
		for _, e := range x.Rhs {
			r.probeFuncLits(e)
		}
	case *ast.ExprStmt:
		r.probeFuncLits(x.X)
	case *ast.GoStmt:
		r.probeFuncLits(x.Call)
	case *ast.DeferStmt:
		r.probeFuncLits(x.Call)
	case *ast.ReturnStmt:
		for _, e := range x.Results {
			r.probeFuncLits(e)
		}
	case *ast.DeclStmt:
		r.probeFuncLits(x.Decl)
	}
}
